(* GraphExec.v -- _generate / _backward / _forward produce paths that _execute consumes exactly,
   and the visited sets they return are the traces of those executions (C03 ->, C04, C05). *)
From Fences Require Import GraphSpec GraphLinks.

(* every transition into a node with a valid completion carries a finite distance *)
Definition complete (g : graph) (lv : amap) : Prop :=
  forall s i t, nth_error (outs_of g s) i = Some t -> VC g t -> lv s i <> None.

Lemma invalid_leaves_app g a b : invalid_leaves g (a ++ b) = invalid_leaves g a ++ invalid_leaves g b.
Proof. unfold invalid_leaves. apply filter_app. Qed.

Arguments invalid_leaves : simpl never.

Lemma app_nil_both {A} (a b : list A) : a ++ b = [] -> a = [] /\ b = [].
Proof. destruct a; simpl; intros H; auto; discriminate. Qed.

(* ---------- argmin ---------- *)
Lemma argmin_go_spec l : forall k best bv,
  (match best with Some j => j < k | None => True end) ->
  match argmin_go l k best bv with
  | Some j => (best = Some j) \/ (k <= j < k + length l /\ nth_error l (j - k) <> Some None /\ nth_error l (j - k) <> None)
  | None => best = None /\ (bv = None -> forall d, In d l -> d = None)
  end.
Proof.
  induction l as [|d r IH]; intros k best bv Hb; simpl.
  - destruct best; [left; reflexivity | split; [reflexivity | intros _ d []]].
  - destruct (dist_lt d bv) eqn:E.
    + specialize (IH (S k) (Some k) d). simpl in IH. specialize (IH (Nat.lt_succ_diag_r k)).
      destruct (argmin_go r (S k) (Some k) d) as [j|].
      * right. destruct IH as [IH|IH].
        -- inversion IH; subst j. rewrite Nat.sub_diag. simpl. repeat split; try lia.
           ++ intros H. inversion H; subst d. destruct bv; discriminate.
           ++ discriminate.
        -- destruct IH as (A & B & C). repeat split; try lia.
           ++ replace (j - k) with (S (j - S k)) by lia. exact B.
           ++ replace (j - k) with (S (j - S k)) by lia. exact C.
      * destruct IH as [IH _]. discriminate.
    + assert (Hb' : match best with Some j => j < S k | None => True end) by (destruct best; auto; lia).
      specialize (IH (S k) best bv Hb').
      destruct (argmin_go r (S k) best bv) as [j|].
      * destruct IH as [IH|IH]; auto. right. destruct IH as (A & B & C). repeat split; try lia.
        -- replace (j - k) with (S (j - S k)) by lia. exact B.
        -- replace (j - k) with (S (j - S k)) by lia. exact C.
      * destruct IH as [A B]. split; auto. intros Hn x [->|Hx]; auto.
        subst bv. destruct x; auto. discriminate.
Qed.

Lemma argmin_some l j : argmin l = Some j -> exists v, nth_error l j = Some (Some v).
Proof.
  unfold argmin. intros H. pose proof (argmin_go_spec l 0 None None I) as S. rewrite H in S.
  destruct S as [S|(A & B & C)]; try discriminate.
  rewrite Nat.sub_0_r in *. destruct (nth_error l j) as [[v|]|]; [eauto | exfalso; apply B; reflexivity | exfalso; apply C; reflexivity].
Qed.

Lemma argmin_none l : argmin l = None -> forall d, In d l -> d = None.
Proof.
  unfold argmin. intros H. pose proof (argmin_go_spec l 0 None None I) as S. rewrite H in S.
  destruct S as [_ S]. auto.
Qed.

Lemma nth_error_seq_lt len : forall a j, j < len -> nth_error (seq a len) j = Some (a + j).
Proof.
  induction len as [|len IH]; intros a j H; [lia|].
  destruct j as [|j]; simpl; [f_equal; lia|]. rewrite IH by lia. f_equal. lia.
Qed.

Lemma row_nth m n len j : j < len -> nth_error (row m n len) j = Some (m n j).
Proof.
  intros H. unfold row. erewrite map_nth_error; [reflexivity|]. apply nth_error_seq_lt. exact H.
Qed.

Lemma row_length m n len : length (row m n len) = len.
Proof. unfold row. rewrite map_length, seq_length. reflexivity. Qed.

Lemma nth_error_nth_lt {A} (l : list A) i d : i < length l -> nth_error l i = Some (nth i l d).
Proof. intros H. apply nth_error_nth'. exact H. Qed.

Section WithGraph.
Variable V : variant.
Variable g : graph.
Hypothesis NR : norefs g.
Hypothesis NE : nonempty_decs g.

Lemma dec_not_leaf n v : is_dec g n = true -> leaf_is g v n = false.
Proof. unfold is_dec, leaf_is. destruct (kind_of g n); auto; discriminate. Qed.

Lemma invalid_leaves_dec n vs : is_dec g n = true -> invalid_leaves g (n :: vs) = invalid_leaves g vs.
Proof. intros H. unfold invalid_leaves. simpl. rewrite dec_not_leaf; auto. Qed.

Definition gen_good (lv : amap) (f n : nat) (p vs : list nat) (b : bool) : Prop :=
  (forall rest, exec f g n (p ++ rest) = Ok (vs, rest)) /\
  (fix_leaf V = true -> b = true -> invalid_leaves g vs = []) /\
  (invalid_leaves g vs = [] -> VC g n) /\
  (fix_leaf V = true -> complete g lv -> invalid_leaves g vs = [] -> b = true).

Definition gen_step lv f :=
  (fun '(p, vs, b) t => do '(p', vs', b') <- gen V f g lv t; Ok (p ++ p', vs ++ vs', b && b')).
Definition exec_step f :=
  (fun '(tr, p) t => do '(tr', p') <- exec f g t p; Ok (tr ++ tr', p')).

Lemma gen_fold lv f
  (IH : forall n p vs b, gen V f g lv n = Ok (p, vs, b) -> gen_good lv f n p vs b) :
  forall l p0 vs0 b0 p vs b,
    foldM (gen_step lv f) l (p0, vs0, b0) = Ok (p, vs, b) ->
    exists p1 vs1 b1, p = p0 ++ p1 /\ vs = vs0 ++ vs1 /\ b = b0 && b1 /\
      (forall tr0 rest, foldM (exec_step f) l (tr0, p1 ++ rest) = Ok (tr0 ++ vs1, rest)) /\
      (fix_leaf V = true -> b1 = true -> invalid_leaves g vs1 = []) /\
      (invalid_leaves g vs1 = [] -> forall t, In t l -> VC g t) /\
      (fix_leaf V = true -> complete g lv -> invalid_leaves g vs1 = [] -> b1 = true).
Proof.
  induction l as [|t l IHl]; intros p0 vs0 b0 p vs b H; simpl in H.
  - inversion H; subst. exists [], [], true. rewrite !app_nil_r, andb_true_r.
    repeat split; auto; [intros tr0 rest; simpl; rewrite app_nil_r; reflexivity | intros _ t []].
  - destruct (gen V f g lv t) as [[[p' vs'] b']| | |] eqn:E; simpl in H; try discriminate.
    apply IHl in H. destruct H as (p1 & vs1 & b1 & -> & -> & -> & Hx & Hv & Hc & Hb).
    destruct (IH _ _ _ _ E) as (Ex & Ev & Ec & Eb).
    exists (p' ++ p1), (vs' ++ vs1), (b' && b1).
    rewrite <- !app_assoc, andb_assoc. repeat split; auto.
    + intros tr0 rest. simpl. rewrite <- app_assoc. rewrite Ex. simpl. rewrite Hx.
      rewrite app_assoc. reflexivity.
    + intros F B. apply andb_true_iff in B. destruct B as [B1 B2].
      rewrite invalid_leaves_app, Ev, Hv; auto.
    + intros I x [<-|Hin]; rewrite invalid_leaves_app in I; apply app_nil_both in I; destruct I; auto.
    + intros F C I. rewrite invalid_leaves_app in I; apply app_nil_both in I; destruct I.
      rewrite Eb, Hb; auto.
Qed.

Lemma gen_spec lv : forall f n p vs b, gen V f g lv n = Ok (p, vs, b) -> gen_good lv f n p vs b.
Proof.
  induction f as [|f IH]; intros n p vs b H; simpl in H; [discriminate|].
  destruct (kind_of g n) as [v|all noop|name] eqn:K.
  - (* leaf *)
    inversion H; subst. unfold gen_good. simpl. rewrite K.
    assert (L : invalid_leaves g [n] = if v then [] else [n]).
    { unfold invalid_leaves, leaf_is. simpl. rewrite K. destruct v; reflexivity. }
    rewrite L. repeat split; auto.
    + intros F B. rewrite F in B. subst v. reflexivity.
    + intros I. destruct v; try discriminate. apply VC_leaf. unfold leaf_is. rewrite K. reflexivity.
    + intros F _ I. rewrite F. destruct v; auto; discriminate.
  - (* decision *)
    assert (D : is_dec g n = true) by (unfold is_dec; rewrite K; reflexivity).
    assert (A : is_all g n = all) by (unfold is_all; rewrite K; reflexivity).
    destruct (outs_of g n) as [|o0 os] eqn:O; [exfalso; apply (NE n D O)|].
    destruct all.
    + (* do-all *)
      fold (gen_step lv f) in H. apply (gen_fold lv f IH) in H.
      destruct H as (p1 & vs1 & b1 & -> & -> & -> & Hx & Hv & Hc & Hb).
      unfold gen_good. simpl. rewrite K. fold (exec_step f). rewrite O.
      rewrite invalid_leaves_dec by exact D. repeat split; auto.
      * intros rest. rewrite Hx. reflexivity.
      * intros I. apply VC_all; auto. rewrite O. auto.
    + (* choose-one *)
      set (sel := argmin (row lv n (length (o0 :: os)))) in *.
      assert (Hsel : exists idx b0, (match sel with Some i => (i, true) | None => (0, false) end) = (idx, b0)
                 /\ idx < length (o0 :: os)
                 /\ (b0 = false -> lv n 0 = None)).
      { destruct sel as [i|] eqn:S.
        - exists i, true. repeat split; try discriminate.
          apply argmin_some in S. destruct S as [v S].
          assert (nth_error (row lv n (length (o0 :: os))) i <> None) by congruence.
          apply nth_error_Some in H0. rewrite row_length in H0. exact H0.
        - exists 0, false. repeat split; simpl; try lia. intros _.
          apply argmin_none with (d := lv n 0) in S; auto. simpl. left. reflexivity. }
      destruct Hsel as (idx & b0 & Es & Li & Hb0). rewrite Es in H.
      set (t := nth idx (o0 :: os) o0) in *.
      assert (Nt : nth_error (outs_of g n) idx = Some t).
      { rewrite O. apply nth_error_nth_lt. exact Li. }
      destruct (gen V f g lv t) as [[[p' vs'] b']| | |] eqn:E; simpl in H; try discriminate.
      inversion H; subst p vs b. destruct (IH _ _ _ _ E) as (Ex & Ev & Ec & Eb).
      unfold gen_good. rewrite invalid_leaves_dec by exact D. repeat split; auto.
      * intros rest. simpl. rewrite K, Nt, Ex. reflexivity.
      * intros F B. apply andb_true_iff in B. destruct B. auto.
      * intros I. apply VC_one with (t := t); auto. eapply nth_error_In; eauto.
      * intros F C I. rewrite Eb; auto. rewrite andb_true_r.
        destruct b0; auto. exfalso.
        assert (idx = 0 /\ True) as [-> _].
        { destruct sel; inversion Es; auto. }
        apply (C n 0 t Nt); auto.
  - exfalso. apply (NR n name K).
Qed.

End WithGraph.

(* a finite distance on a transition means its target has a valid completion *)
Definition sound (g : graph) (lv : amap) : Prop :=
  forall s i t, nth_error (outs_of g s) i = Some t -> lv s i <> None -> VC g t.

Lemma foldM_app {A B} (f : A -> B -> res A) l1 l2 a :
  foldM f (l1 ++ l2) a = do a' <- foldM f l1 a; foldM f l2 a'.
Proof.
  revert a; induction l1 as [|x r IH]; intros a; simpl; auto.
  destruct (f a x); simpl; auto.
Qed.

Lemma enum_from_app {A} (l1 l2 : list A) k :
  enum_from k (l1 ++ l2) = enum_from k l1 ++ enum_from (k + length l1) l2.
Proof.
  revert k; induction l1 as [|x r IH]; intros k; simpl.
  - rewrite Nat.add_0_r. reflexivity.
  - rewrite IH. do 3 f_equal. lia.
Qed.

Lemma enum_from_idx {A} (l : list A) k i t : In (i, t) (enum_from k l) -> k <= i.
Proof.
  revert k; induction l as [|x r IH]; intros k H; simpl in H; [contradiction|].
  destruct H as [H|H]; [inversion H; lia|]. apply IH in H. lia.
Qed.

Lemma enum_from_idx_lt {A} (l : list A) k i t : In (i, t) (enum_from k l) -> i < k + length l.
Proof.
  revert k; induction l as [|x r IH]; intros k H; simpl in H; [contradiction|].
  destruct H as [H|H]; [inversion H; simpl; lia|]. apply IH in H. simpl. lia.
Qed.

Lemma map_snd_enum_from {A} (l : list A) k : map snd (enum_from k l) = l.
Proof. revert k; induction l as [|x r IH]; intros k; simpl; auto. rewrite IH. reflexivity. Qed.

Lemma nth_error_split_len {A} (l : list A) i t :
  nth_error l i = Some t -> exists l1 l2, l = l1 ++ t :: l2 /\ length l1 = i.
Proof. intros H. apply nth_error_split in H. exact H. Qed.

Section WithGraph2.
Variable V : variant.
Variable g : graph.
Hypothesis NR : norefs g.
Hypothesis NE : nonempty_decs g.

Lemma spine_snoc r p l s i t :
  spine g r p l s -> is_dec g s = true -> nth_error (outs_of g s) i = Some t ->
  spine g r (p ++ [i]) (l ++ [t]) t.
Proof.
  induction 1 as [n|s0 i0 t0 p l e D N S IH]; intros Hd Hn; simpl.
  - eapply spine_cons; eauto. constructor.
  - eapply spine_cons; eauto.
Qed.

Lemma spine_end_in r p l e : spine g r p l e -> In e l.
Proof. induction 1; simpl; auto. Qed.

Lemma spine_decs r p l e : spine g r p l e -> forall x, In x l -> x = e \/ is_dec g x = true.
Proof.
  induction 1 as [n|s i t p l e D N S IH]; intros x Hx; simpl in Hx.
  - destruct Hx as [->|[]]; auto.
  - destruct Hx as [->|Hx]; auto.
Qed.

Lemma backward_spec (IO : ins_ok g) lr : forall f n r bp vs,
  backward f g lr n = Ok (r, bp, vs) ->
  ins_of g r = [] /\ spine g r (rev bp) (rev vs) n.
Proof.
  induction f as [|f IH]; intros n r bp vs H; simpl in H; [discriminate|].
  destruct (ins_of g n) as [|r0 rs] eqn:I.
  - inversion H; subst. split; auto. simpl. constructor.
  - destruct (argmin (row lr n (length (r0 :: rs)))) as [pos|] eqn:A; [|discriminate].
    assert (Lp : pos < length (r0 :: rs)).
    { apply argmin_some in A. destruct A as [v A].
      assert (nth_error (row lr n (length (r0 :: rs))) pos <> None) by congruence.
      apply nth_error_Some in H0. rewrite row_length in H0. exact H0. }
    destruct (nth pos (r0 :: rs) r0) as [s idx] eqn:E.
    assert (Hin : In (s, idx) (ins_of g n)).
    { rewrite I, <- E. apply nth_In. exact Lp. }
    destruct (IO _ _ _ Hin) as [Ds Ns].
    destruct (backward f g lr s) as [[[r' bp'] vs']| | |] eqn:B; simpl in H; try discriminate.
    inversion H; subst r bp vs. destruct (IH _ _ _ _ B) as [R S]. split; auto.
    simpl. eapply spine_snoc; eauto.
Qed.

Lemma backward_vs_head lr : forall f n r bp vs,
  backward f g lr n = Ok (r, bp, vs) -> exists vs', vs = n :: vs'.
Proof.
  destruct f as [|f]; intros n r bp vs H; simpl in H; [discriminate|].
  destruct (ins_of g n) as [|r0 rs].
  - inversion H; subst. eauto.
  - destruct (argmin _) as [pos|]; [|discriminate].
    destruct (nth pos (r0 :: rs) r0) as [s idx].
    destruct (backward f g lr s) as [[[r' bp'] vs']| | |]; simpl in H; try discriminate.
    inversion H; subst. eauto.
Qed.

(* _generate started at a node that has a valid completion applies valid leaves only *)
Lemma gen_VC lv (SO : sound g lv) (CO : complete g lv) : forall f n p vs b,
  VC g n -> gen V f g lv n = Ok (p, vs, b) -> invalid_leaves g vs = [].
Proof.
  induction f as [|f IH]; intros n p vs b HV H; simpl in H; [discriminate|].
  destruct (kind_of g n) as [v|all noop|name] eqn:K.
  - inversion H; subst. inversion HV as [n0 L| n0 D | n0 t D]; subst.
    + unfold invalid_leaves, leaf_is in *. simpl. rewrite K in *. destruct v; auto; discriminate.
    + unfold is_dec in D. rewrite K in D. discriminate.
    + unfold is_dec in D. rewrite K in D. discriminate.
  - assert (D : is_dec g n = true) by (unfold is_dec; rewrite K; reflexivity).
    assert (A : is_all g n = all) by (unfold is_all; rewrite K; reflexivity).
    destruct (outs_of g n) as [|o0 os] eqn:O; [exfalso; apply (NE n D O)|].
    destruct all.
    + (* do-all: all children have VC *)
      assert (HC : forall t, In t (o0 :: os) -> VC g t).
      { inversion HV as [n0 L| n0 D' A' C | n0 t D' A' I C]; subst.
        - unfold leaf_is in L. rewrite K in L. discriminate.
        - rewrite O in C. exact C.
        - congruence. }
      clear O HV. fold (gen_step V g lv f) in H.
      assert (G : forall l p0 vs0 b0 p vs b,
                 (forall t, In t l -> VC g t) ->
                 foldM (gen_step V g lv f) l (p0, vs0, b0) = Ok (p, vs, b) ->
                 exists vs1, vs = vs0 ++ vs1 /\ invalid_leaves g vs1 = []).
      { induction l as [|t l IHl]; intros p0 vs0 b0 p1 vs1 b1 HC' H'; simpl in H'.
        - inversion H'; subst. exists []. rewrite app_nil_r. auto.
        - destruct (gen V f g lv t) as [[[p' vs'] b']| | |] eqn:E; simpl in H'; try discriminate.
          apply IHl in H'; [|intros; apply HC'; simpl; auto].
          destruct H' as (vs2 & -> & I2). exists (vs' ++ vs2). rewrite <- app_assoc. split; auto.
          rewrite invalid_leaves_app, I2. rewrite (IH _ _ _ _ (HC' t (or_introl eq_refl)) E). reflexivity. }
      destruct (G _ _ _ _ _ _ _ HC H) as (vs1 & -> & I1).
      simpl. rewrite invalid_leaves_dec by exact D. exact I1.
    + (* choose-one: the selected transition is finite, hence its target has VC *)
      assert (HC : exists j t, nth_error (o0 :: os) j = Some t /\ VC g t).
      { inversion HV as [n0 L| n0 D' A' C | n0 t D' A' I C]; subst.
        - unfold leaf_is in L. rewrite K in L. discriminate.
        - congruence.
        - rewrite O in I. apply In_nth_error in I. destruct I as [j I]. eauto. }
      destruct HC as (j & tj & Nj & Vj).
      destruct (argmin (row lv n (length (o0 :: os)))) as [i|] eqn:S.
      * pose proof S as S'. apply argmin_some in S'. destruct S' as [v S'].
        assert (Li : i < length (o0 :: os)).
        { assert (nth_error (row lv n (length (o0 :: os))) i <> None) by congruence.
          apply nth_error_Some in H0. rewrite row_length in H0. exact H0. }
        rewrite row_nth in S' by exact Li.
        set (t := nth i (o0 :: os) o0) in *.
        assert (Nt : nth_error (outs_of g n) i = Some t) by (rewrite O; apply nth_error_nth_lt; exact Li).
        destruct (gen V f g lv t) as [[[p' vs'] b']| | |] eqn:E; simpl in H; try discriminate.
        inversion H; subst. rewrite invalid_leaves_dec by exact D.
        eapply IH; [|exact E]. eapply SO; [exact Nt|]. congruence.
      * exfalso. apply argmin_none with (d := lv n j) in S.
        -- eapply CO; [rewrite O; exact Nj| exact Vj | exact S].
        -- assert (Lj : j < length (o0 :: os)) by (apply nth_error_Some; congruence).
           eapply nth_error_In. apply row_nth. exact Lj.
  - exfalso. apply (NR n name K).
Qed.

End WithGraph2.

Section WithGraph3.
Variable V : variant.
Variable g : graph.
Hypothesis NR : norefs g.
Hypothesis NE : nonempty_decs g.

Lemma gen_fold_VC lv (SO : sound g lv) (CO : complete g lv) f :
  forall l p0 vs0 b0 p vs b,
    (forall t, In t l -> VC g t) ->
    foldM (gen_step V g lv f) l (p0, vs0, b0) = Ok (p, vs, b) ->
    exists vs1, vs = vs0 ++ vs1 /\ invalid_leaves g vs1 = [].
Proof.
  induction l as [|t l IHl]; intros p0 vs0 b0 p1 vs1 b1 HC' H'; simpl in H'.
  - inversion H'; subst. exists []. rewrite app_nil_r. auto.
  - destruct (gen V f g lv t) as [[[p' vs'] b']| | |] eqn:E; simpl in H'; try discriminate.
    apply IHl in H'; [|intros; apply HC'; simpl; auto].
    destruct H' as (vs2 & -> & I2). exists (vs' ++ vs2). rewrite <- app_assoc. split; auto.
    rewrite invalid_leaves_app, I2.
    rewrite (gen_VC V g NR NE lv SO CO _ _ _ _ _ (HC' t (or_introl eq_refl)) E). reflexivity.
Qed.

Definition fwd_step lv f i :=
  (fun '(p, vs, b, rest) '(idx, t) =>
     if idx =? i then
       do '(p', vs', b', rest') <- forward V f g lv t rest;
       Ok (p ++ p', vs ++ vs', b && b', rest')
     else
       do '(p', vs', b') <- gen V f g lv t;
       Ok (p ++ p', vs ++ vs', b && b', rest)).

Lemma fwd_fold_gen lv f i : forall pairs p0 vs0 b0 (rest0 : list nat),
  (forall idx t, In (idx, t) pairs -> idx <> i) ->
  foldM (fwd_step lv f i) pairs (p0, vs0, b0, rest0) =
  (do '(p, vs, b) <- foldM (gen_step V g lv f) (map snd pairs) (p0, vs0, b0); Ok (p, vs, b, rest0)).
Proof.
  induction pairs as [|[idx t] r IH]; intros p0 vs0 b0 rest0 Hne; simpl; auto.
  assert (N : idx <> i) by (eapply Hne; left; reflexivity).
  apply Nat.eqb_neq in N. rewrite N.
  destruct (gen V f g lv t) as [[[p' vs'] b']| | |]; simpl; auto.
  apply IH. intros; eapply Hne; right; eauto.
Qed.

Definition fwd_good lv (f n : nat) (bp l : list nat) (p vs : list nat) (b : bool) : Prop :=
  exists tr,
    (forall rest', exec f g n (p ++ rest') = Ok (tr, rest')) /\
    (forall x, In x tr <-> In x l \/ In x vs) /\
    (fix_leaf V = true -> b = true -> invalid_leaves g vs = []) /\
    (fix_leaf V = true -> complete g lv -> invalid_leaves g vs = [] -> b = true) /\
    (sound g lv -> complete g lv -> sibs_VC g n bp -> invalid_leaves g vs = []).

Lemma forward_spec lv : forall f n bp l m p vs b rest,
  spine g n bp l m -> is_leaf g m = true ->
  forward V f g lv n bp = Ok (p, vs, b, rest) ->
  rest = [] /\ fwd_good lv f n bp l p vs b.
Proof.
  induction f as [|f IH]; intros n bp l m p vs b rest Sp Lm H; simpl in H; [discriminate|].
  inversion Sp as [n0|s i t bp' l' e D N S']; subst.
  - (* end of the spine: the target leaf *)
    inversion H; subst. split; auto. exists [m]. repeat split; auto.
    + intros rest'. simpl. unfold is_leaf in Lm. destruct (kind_of g m); try discriminate. reflexivity.
    + intros [Hx|[]]; auto.
  - destruct (kind_of g n) as [v|all noop|name] eqn:K;
      try (unfold is_dec in D; rewrite K in D; discriminate).
    assert (A : is_all g n = all) by (unfold is_all; rewrite K; reflexivity).
    destruct all.
    + (* do-all on the spine *)
      fold (fwd_step lv f i) in H.
      destruct (nth_error_split_len _ _ _ N) as (l1 & l2 & O & Li).
      unfold enumerate in H. rewrite O, enum_from_app in H. simpl in H.
      rewrite foldM_app in H.
      rewrite fwd_fold_gen in H by (intros idx x Hin; apply enum_from_idx_lt in Hin; lia).
      rewrite map_snd_enum_from in H.
      destruct (foldM (gen_step V g lv f) l1 ([], [], true)) as [[[pa vsa] ba]| | |] eqn:Fa;
        simpl in H; try discriminate.
      rewrite Li, Nat.eqb_refl in H.
      destruct (forward V f g lv t bp') as [[[[p' vs'] b'] rest']| | |] eqn:Fw; simpl in H; try discriminate.
      rewrite fwd_fold_gen in H by (intros idx x Hin; apply enum_from_idx in Hin; lia).
      rewrite map_snd_enum_from in H.
      destruct (foldM (gen_step V g lv f) l2 (pa ++ p', vsa ++ vs', ba && b')) as [[[pc vsc] bc]| | |] eqn:Fc;
        simpl in H; try discriminate.
      inversion H; subst p vs b rest. clear H.
      destruct (IH _ _ _ _ _ _ _ _ S' Lm Fw) as (-> & tr' & Ex' & Mem' & V2' & V4' & V5').
      split; auto.
      pose proof (gen_fold V g lv f (gen_spec V g NR NE lv f)) as GF.
      destruct (GF _ _ _ _ _ _ _ Fa) as (pa1 & vsa1 & ba1 & -> & -> & -> & Xa & Va2 & Va3 & Va4).
      destruct (GF _ _ _ _ _ _ _ Fc) as (pc1 & vsc1 & bc1 & -> & -> & -> & Xc & Vc2 & Vc3 & Vc4).
      simpl. exists (n :: vsa1 ++ tr' ++ vsc1).
      assert (Dn : forall xs, invalid_leaves g (n :: xs) = invalid_leaves g xs)
        by (intros; apply invalid_leaves_dec; exact D).
      assert (MEM : forall x, In x (n :: vsa1 ++ tr' ++ vsc1) <->
                              In x (n :: l') \/ In x ((([] ++ vsa1) ++ vs') ++ vsc1)).
      { intros x. simpl. rewrite !in_app_iff. rewrite (Mem' x). tauto. }
      repeat split.
      * intros rest0. simpl. rewrite K. fold (exec_step g f). rewrite O.
        rewrite foldM_app. rewrite <- !app_assoc. rewrite Xa. simpl.
        rewrite Ex'. simpl. rewrite Xc. simpl. rewrite <- app_assoc. reflexivity.
      * intros Hx. apply MEM. exact Hx.
      * intros Hx. apply MEM. exact Hx.
      * intros F B. simpl in B. apply andb_true_iff in B. destruct B as [B Bc].
        apply andb_true_iff in B. destruct B as [Ba Bb].
        rewrite !invalid_leaves_app. rewrite Va2, V2', Vc2; auto.
      * intros F C I. rewrite !invalid_leaves_app in I.
        apply app_nil_both in I. destruct I as [I Ic]. apply app_nil_both in I. destruct I as [Ia Ib].
        simpl. rewrite Va4, V4', Vc4; auto.
      * intros SO CO [Sib Sub]. rewrite N in Sub. rewrite !invalid_leaves_app.
        specialize (Sib A).
        assert (HC1 : forall x, In x l1 -> VC g x).
        { intros x Hx. apply In_nth_error in Hx. destruct Hx as [j Hj].
          assert (Lj : j < length l1) by (apply nth_error_Some; rewrite Hj; discriminate).
          apply (Sib j x); [lia|]. rewrite O. rewrite nth_error_app1 by exact Lj. exact Hj. }
        assert (HC2 : forall x, In x l2 -> VC g x).
        { intros x Hx. apply In_nth_error in Hx. destruct Hx as [j Hj].
          apply (Sib (S (length l1 + j)) x); [lia|]. rewrite O. rewrite nth_error_app2 by lia.
          replace (S (length l1 + j) - length l1) with (S j) by lia. exact Hj. }
        destruct (gen_fold_VC lv SO CO f _ _ _ _ _ _ _ HC1 Fa) as (va & Ea & Ia).
        simpl in Ea. subst va.
        destruct (gen_fold_VC lv SO CO f _ _ _ _ _ _ _ HC2 Fc) as (vc & Ec & Ic).
        apply app_inv_head in Ec. subst vc.
        rewrite Ia, Ic, V5'; auto.
    + (* choose-one on the spine *)
      rewrite N in H.
      destruct (forward V f g lv t bp') as [[[[p' vs'] b'] rest']| | |] eqn:Fw; simpl in H; try discriminate.
      inversion H; subst p vs b rest. clear H.
      destruct (IH _ _ _ _ _ _ _ _ S' Lm Fw) as (-> & tr' & Ex' & Mem' & V2' & V4' & V5').
      split; auto. exists (n :: tr'). repeat split; auto.
      * intros rest0. simpl. rewrite K, N, Ex'. reflexivity.
      * intros [->|Hx]; [left; left; reflexivity|]. apply Mem' in Hx. destruct Hx; [left; right|right]; auto.
      * intros [[->|Hx]|Hx]; [left; reflexivity| |]; right; apply Mem'; auto.
      * intros SO CO [_ Sub]. rewrite N in Sub. auto.
Qed.

End WithGraph3.

(* ---------- items() only yields nodes reachable from the root ---------- *)
Lemma mem_In n l : mem n l = true <-> In n l.
Proof.
  induction l as [|x r IH]; simpl; [split; [discriminate|tauto]|].
  rewrite orb_true_iff, IH, Nat.eqb_eq. tauto.
Qed.

Lemma dfs_reach g root : forall f vis n vis',
  dfs f g vis n = Ok vis' ->
  (forall x, In x vis -> reach g root x) -> reach g root n ->
  (forall x, In x vis' -> reach g root x) /\ (forall x, In x vis -> In x vis').
Proof.
  induction f as [|f IH]; intros vis n vis' H Hv Hn; simpl in H; [discriminate|].
  destruct (mem n vis) eqn:M; [inversion H; subst; auto|].
  assert (Hv' : forall x, In x (vis ++ [n]) -> reach g root x).
  { intros x Hx. apply in_app_or in Hx. destruct Hx as [Hx|[<-|[]]]; auto. }
  destruct (is_dec g n) eqn:D.
  - assert (G : forall l vis0 vis1,
               foldM (dfs f g) l vis0 = Ok vis1 ->
               (forall x, In x vis0 -> reach g root x) ->
               (forall t, In t l -> reach g root t) ->
               (forall x, In x vis1 -> reach g root x) /\ (forall x, In x vis0 -> In x vis1)).
    { induction l as [|t l IHl]; intros vis0 vis1 F R0 Rl; simpl in F.
      - inversion F; subst; auto.
      - destruct (dfs f g vis0 t) as [v| | |] eqn:E; simpl in F; try discriminate.
        destruct (IH _ _ _ E R0 (Rl t (or_introl eq_refl))) as [R1 S1].
        destruct (IHl _ _ F R1 (fun t' Ht => Rl t' (or_intror Ht))) as [R2 S2]. split; auto. }
    destruct (G _ _ _ H Hv') as [R S].
    + intros t Ht. apply In_nth_error in Ht. destruct Ht as [i Hi].
      eapply reach_step; eauto.
    + split; auto. intros x Hx. apply S. apply in_or_app. auto.
  - inversion H; subst. split; auto. intros x Hx. apply in_or_app. auto.
Qed.

Lemma items_reach g root f its : items f g root = Ok its -> forall x, In x its -> reach g root x.
Proof.
  intros H. unfold items in H. eapply dfs_reach in H; try apply reach_refl.
  - destruct H; auto.
  - intros x [].
Qed.

Lemma no_ins_is_root g root r : outs_ok g -> reach g root r -> ins_of g r = [] -> r = root.
Proof.
  intros OO R I. inversion R as [|s i t Rs N]; subst; auto.
  apply OO in N. rewrite I in N. contradiction.
Qed.

Lemma backward_root_kind g lr : forall f n r bp vs,
  ins_ok g -> backward f g lr n = Ok (r, bp, vs) -> r = n \/ is_dec g r = true.
Proof.
  induction f as [|f IH]; intros n r bp vs IO H; simpl in H; [discriminate|].
  destruct (ins_of g n) as [|r0 rs] eqn:I.
  - inversion H; subst; auto.
  - destruct (argmin _) as [pos|] eqn:A; [|discriminate].
    assert (Lp : pos < length (r0 :: rs)).
    { apply argmin_some in A. destruct A as [v A].
      assert (nth_error (row lr n (length (r0 :: rs))) pos <> None) by congruence.
      apply nth_error_Some in H0. rewrite row_length in H0. exact H0. }
    destruct (nth pos (r0 :: rs) r0) as [s idx] eqn:E.
    assert (Hin : In (s, idx) (ins_of g n)) by (rewrite I, <- E; apply nth_In; exact Lp).
    destruct (IO _ _ _ Hin) as [Ds _].
    destruct (backward f g lr s) as [[[r' bp'] vs']| | |] eqn:B; simpl in H; try discriminate.
    inversion H; subst. right. destruct (IH _ _ _ _ IO B) as [->|]; auto.
Qed.

Lemma filter_all_false {A} (p : A -> bool) l : (forall x, In x l -> p x = false) -> filter p l = [].
Proof.
  induction l as [|x r IH]; simpl; intros H; auto.
  rewrite (H x (or_introl eq_refl)). apply IH. intros; apply H; auto.
Qed.

Lemma filter_nil_all {A} (p : A -> bool) l : filter p l = [] -> forall x, In x l -> p x = false.
Proof.
  induction l as [|y r IH]; simpl; intros H x Hx; [contradiction|].
  destruct (p y) eqn:E; [discriminate|]. destruct Hx as [<-|Hx]; auto.
Qed.

Lemma filter_length_le' {A} (p : A -> bool) l : length (filter p l) <= length l.
Proof. induction l as [|y r IH]; simpl; auto. destruct (p y); simpl; lia. Qed.

Lemma filter_length_lt {A} (p : A -> bool) l x : In x l -> p x = false -> length (filter p l) < length l.
Proof.
  induction l as [|y r IH]; simpl; intros Hx Px; [contradiction|].
  pose proof (filter_length_le' p r) as L.
  destruct Hx as [->|Hx].
  - rewrite Px. lia.
  - specialize (IH Hx Px). destruct (p y); simpl; lia.
Qed.

(* ---------- the work-list loop of generate_paths ---------- *)
Section Loop.
Variable V : variant.
Variable g : graph.
Variable root : nat.
Hypothesis W : wf g root.
Variable fuel : nat.
Variables lv lr : amap.

Definition trace_of (e : entry) : list nat :=
  match exec fuel g root (epath e) with Ok (tr, _) => tr | _ => [] end.

Record entry_good (e : entry) : Prop := mkEntryGood {
  eg_exec : exists tr, exec fuel g root (epath e) = Ok (tr, []) /\ In (etarget e) tr;
  eg_leaf : is_leaf g (etarget e) = true;
  eg_label_sound : fix_leaf V = true -> evalid e = true -> invalid_leaves g (trace_of e) = [];
  eg_label_complete : fix_leaf V = true -> complete g lv ->
                      invalid_leaves g (trace_of e) = [] -> evalid e = true;
  eg_one_fault : sound g lv -> complete g lv ->
                 exists bp l, spine g root bp l (etarget e) /\
                   (sibs_VC g root bp ->
                    forall x, In x (invalid_leaves g (trace_of e)) -> x = etarget e)
}.

Lemma cast_err_not_ok {A} (r : res A) : @cast_err A unit r <> Ok tt.
Proof. destruct r; simpl; discriminate. Qed.

Lemma trace_of_eq e tr r : exec fuel g root (epath e) = Ok (tr, r) -> trace_of e = tr.
Proof. intros H. unfold trace_of. rewrite H. reflexivity. Qed.

Definition loop_post (tv : list nat) (es : list entry) (st : res unit) : Prop :=
  (forall e, In e es -> entry_good e /\ In (etarget e) tv) /\
  (forall es1 e es2, es = es1 ++ e :: es2 ->
     forall e', In e' es1 -> ~ In (etarget e) (trace_of e')) /\
  (st = Ok tt -> forall x, In x tv -> exists e, In e es /\ In x (trace_of e)) /\
  length es <= length tv.

Lemma loop_post_err tv st : st <> Ok tt -> loop_post tv [] st.
Proof.
  intros N. repeat split; try contradiction; simpl; try lia.
  intros es1 e es2 E. destruct es1; discriminate.
Qed.

Lemma gp_loop_S k tv next tv0 : tv = next :: tv0 ->
  gp_loop V (S k) fuel g lv lr tv =
  match backward fuel g lr next with
  | Ok (r, bp, vs) =>
    match forward V fuel g lv r (rev bp) with
    | Ok (fp, vs', sat, _) =>
      let e := mkEntry next fp (leaf_is g true next && sat) in
      let seen := vs ++ vs' in
      let tv' := filter (fun x => negb (mem x seen)) tv in
      let '(es, st) := gp_loop V k fuel g lv lr tv' in
      (e :: es, st)
    | e => ([], cast_err e)
    end
  | e => ([], cast_err e)
  end.
Proof. intros ->. reflexivity. Qed.

Lemma gp_loop_spec : forall k tv es st,
  (forall x, In x tv -> reach g root x /\ is_leaf g x = true) ->
  gp_loop V k fuel g lv lr tv = (es, st) -> loop_post tv es st.
Proof.
  destruct W as [[IO OO] NR NE RE RI R0].
  induction k as [|k IH]; intros tv es st Htv H.
  - destruct tv as [|next tv']; simpl in H; inversion H; subst.
    + repeat split; try contradiction; auto. intros es1 e es2 E. destruct es1; discriminate.
    + apply loop_post_err. discriminate.
  - destruct tv as [|next tv0] eqn:TV.
    + simpl in H. inversion H; subst. repeat split; try contradiction; auto.
      intros es1 e es2 E. destruct es1; discriminate.
    + rewrite <- TV in *. rewrite (gp_loop_S k tv next tv0 TV) in H.
      assert (Hnext : In next tv) by (rewrite TV; left; reflexivity).
      destruct (Htv _ Hnext) as [Rn Ln].
      destruct (backward fuel g lr next) as [[[r bp] vs]| | |] eqn:B;
        try (inversion H; subst; apply loop_post_err; discriminate).
      destruct (backward_spec g IO lr _ _ _ _ _ B) as [Ir Sp].
      assert (r = root) as ->.
      { apply no_ins_is_root with (g := g); auto.
        destruct (backward_root_kind g lr _ _ _ _ _ IO B) as [->|D]; auto.
        apply RE. apply is_dec_lt. exact D. }
      destruct (forward V fuel g lv root (rev bp)) as [[[[fp vs'] sat] rest]| | |] eqn:F;
        try (inversion H; subst; apply loop_post_err; discriminate).
      destruct (forward_spec V g NR NE lv _ _ _ _ _ _ _ _ _ Sp Ln F)
        as (-> & tr & Ex & Mem & V2 & V4 & V5).
      cbv zeta in H.
      set (e0 := mkEntry next fp (leaf_is g true next && sat)) in *.
      set (seen := vs ++ vs') in *.
      set (tv' := filter (fun x => negb (mem x seen)) tv) in *.
      destruct (gp_loop V k fuel g lv lr tv') as [es' st'] eqn:G.
      inversion H. subst es st. clear H.
      assert (Ex0 : exec fuel g root (epath e0) = Ok (tr, [])).
      { specialize (Ex []). rewrite app_nil_r in Ex. exact Ex. }
      assert (T0 : trace_of e0 = tr) by (eapply trace_of_eq; eauto).
      assert (Seen : forall x, In x seen <-> In x tr).
      { intros x. unfold seen. rewrite in_app_iff, Mem, <- in_rev. tauto. }
      destruct (backward_vs_head g lr _ _ _ _ _ B) as [vs0 Evs].
      assert (NextTr : In next tr).
      { apply Seen. unfold seen. rewrite Evs. left. reflexivity. }
      assert (Htv' : forall x, In x tv' -> reach g root x /\ is_leaf g x = true).
      { intros x Hx. apply filter_In in Hx. destruct Hx. auto. }
      destruct (IH _ _ _ Htv' G) as (P1 & P2 & P3 & P4).
      assert (SpineKinds : forall x, In x (rev vs) -> x = next \/ is_dec g x = true).
      { eapply spine_decs; eauto. }
      assert (InvTr : invalid_leaves g tr = [] <->
                      (leaf_is g false next = false /\ invalid_leaves g vs' = [])).
      { split.
        - intros I. pose proof (filter_nil_all _ _ I) as A. split.
          + apply A. exact NextTr.
          + apply filter_all_false. intros x Hx. apply A. apply Mem. right. exact Hx.
        - intros [A1 A2]. apply filter_all_false. intros x Hx. apply Mem in Hx.
          destruct Hx as [Hx|Hx].
          + destruct (SpineKinds _ Hx) as [->|D]; auto. apply dec_not_leaf. exact D.
          + eapply filter_nil_all; eauto. }
      assert (LeafNext : leaf_is g false next = negb (leaf_is g true next)).
      { unfold is_leaf, leaf_is in *. destruct (kind_of g next) as [[]| |]; auto; discriminate. }
      assert (G0 : entry_good e0).
      { constructor; simpl.
        - exists tr. split; auto.
        - exact Ln.
        - intros FL B'. apply andb_true_iff in B'. destruct B' as [B1 B2]. rewrite T0.
          apply InvTr. split; [rewrite LeafNext, B1; reflexivity| auto].
        - intros FL CO I. rewrite T0 in I. apply InvTr in I. destruct I as [I1 I2].
          rewrite LeafNext in I1. apply negb_false_iff in I1. rewrite I1. simpl. auto.
        - intros SO CO. exists (rev bp), (rev vs). split; auto.
          intros SV x Hx. rewrite T0 in Hx. unfold invalid_leaves in Hx.
          apply filter_In in Hx. destruct Hx as [Hx Lx].
          apply Mem in Hx. destruct Hx as [Hx|Hx].
          + destruct (SpineKinds _ Hx) as [->|D]; auto.
            rewrite dec_not_leaf in Lx by exact D. discriminate.
          + specialize (V5 SO CO SV). eapply filter_nil_all in V5; eauto. congruence. }
      split; [|split; [|split]].
      * intros e [<-|He]; [split; auto|].
        destruct (P1 _ He) as [A1 A2]. split; auto. apply filter_In in A2. destruct A2; auto.
      * intros es1 e es2 E e' He'.
        destruct es1 as [|x es1]; [contradiction|]. simpl in E. inversion E; subst x.
        destruct He' as [<-|He'].
        -- rewrite T0. intros Hin.
           assert (In e es') by (rewrite H1; apply in_or_app; right; left; reflexivity).
           destruct (P1 _ H) as [_ A2]. apply filter_In in A2. destruct A2 as [_ A2].
           apply negb_true_iff in A2. apply Seen in Hin. apply mem_In in Hin. congruence.
        -- eapply P2; eauto.
      * intros St x Hx. destruct (mem x seen) eqn:M.
        -- exists e0. split; [left; reflexivity|]. rewrite T0. apply Seen. apply mem_In. exact M.
        -- assert (In x tv') by (apply filter_In; split; auto; rewrite M; reflexivity).
           destruct (P3 St _ H) as (e & He & Hx'). exists e. split; auto. right. exact He.
      * simpl. assert (length tv' < length tv); [|lia].
        apply filter_length_lt with (x := next); auto.
        apply negb_false_iff. apply mem_In. apply Seen. exact NextTr.
Qed.

End Loop.

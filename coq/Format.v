(* Format.v -- MODEL of fences/open_api/format.py (definitions only) and the OpenAPI 3 style
   decoder used as specification (C19).  Strings are lists of code points. *)
From Fences Require Export Base.

Definition str := list nat.
Definition comma : nat := 44.   (* "," *)
Definition equals : nat := 61.  (* "=" *)
Definition s_true : str := [116; 114; 117; 101].
Definition s_false : str := [102; 97; 108; 115; 101].

(* an element of a flat list / dict: a string, or a number carried as the text Python's str()
   gives it (so no float arithmetic is modelled) *)
Inductive elem := EStr (s : str) | ENum (rendering : str).
Definition estr (e : elem) : str := match e with EStr s => s | ENum r => r end.   (* str(v) *)

Inductive value :=
| VStr (s : str) | VBool (b : bool) | VNum (rendering : str)
| VList (l : list elem) | VDict (d : list (str * elem))
| VOther.                                     (* None, nested containers, tuples, ... *)

Inductive style := Simple | Form.

(* sep.join(parts) *)
Fixpoint join (sep : nat) (parts : list str) : str :=
  match parts with
  | [] => []
  | [p] => p
  | p :: r => p ++ sep :: join sep r
  end.

(* _format_simple *)
Definition format_simple (v : value) (explode : bool) : res str :=
  match v with
  | VStr s => Ok s
  | VBool b => Ok (if b then s_true else s_false)
  | VNum r => Ok r
  | VList l => Ok (join comma (map estr l))
  | VDict d =>
      if explode then Ok (join comma (map (fun '(k, e) => k ++ equals :: estr e) d))
      else Ok (join comma (flat_map (fun '(k, e) => [k; estr e]) d))
  | VOther => LibErr EOpenApi
  end.

(* values of the returned dict: a string, or (exploded form array) the raw last element *)
Inductive oval := OStr (s : str) | ORaw (e : elem).

(* _format_form *)
Definition format_form (name : str) (explode : bool) (v : value) : res (list (str * oval)) :=
  match v with
  | VStr s => Ok [(name, OStr s)]
  | VBool b => Ok [(name, OStr (if b then s_true else s_false))]
  | VNum r => Ok [(name, OStr r)]
  | VList l =>
      if explode then
        Ok [(name, match rev l with [] => OStr [] | e :: _ => ORaw e end)]   (* value[-1] if value else '' *)
      else do s <- format_simple v explode; Ok [(name, OStr s)]
  | VDict d =>
      if explode then Ok (map (fun '(k, e) => (k, OStr (estr e))) d)
      else do s <- format_simple v false; Ok [(name, OStr s)]
  | VOther => LibErr EOpenApi
  end.

(* format_parameter_value *)
Definition format_parameter_value (name : str) (st : style) (explode : bool) (v : value)
  : res (list (str * oval)) :=
  match st with
  | Simple => do s <- format_simple v explode; Ok [(name, OStr s)]
  | Form => format_form name explode v
  end.

(* ---------- specification: decoding by the OpenAPI 3 style table ---------- *)
Inductive shape := ShPrim | ShArray | ShObject.
Inductive decoded := DPrim (s : str) | DArr (l : list str) | DObj (d : list (str * str)).

Definition shape_of (v : value) : shape :=
  match v with VList _ => ShArray | VDict _ => ShObject | _ => ShPrim end.

(* what the receiver should get back: the value with its scalars as strings *)
Definition strs (v : value) : option decoded :=
  match v with
  | VStr s => Some (DPrim s)
  | VBool b => Some (DPrim (if b then s_true else s_false))
  | VNum r => Some (DPrim r)
  | VList l => Some (DArr (map estr l))
  | VDict d => Some (DObj (map (fun '(k, e) => (k, estr e)) d))
  | VOther => None
  end.

(* split on a separator; the empty text is the empty list *)
Fixpoint split_go (sep : nat) (s cur : str) : list str :=
  match s with
  | [] => [rev cur]
  | c :: r => if c =? sep then rev cur :: split_go sep r [] else split_go sep r (c :: cur)
  end.
Definition split (sep : nat) (s : str) : list str :=
  match s with [] => [] | _ => split_go sep s [] end.

Fixpoint pair_up (l : list str) : option (list (str * str)) :=
  match l with
  | [] => Some []
  | k :: v :: r => match pair_up r with Some d => Some ((k, v) :: d) | None => None end
  | [_] => None
  end.

Definition split_kv (s : str) : option (str * str) :=
  match split equals s with [k; v] => Some (k, v) | _ => None end.

Fixpoint all_some {A} (l : list (option A)) : option (list A) :=
  match l with
  | [] => Some []
  | Some a :: r => match all_some r with Some x => Some (a :: x) | None => None end
  | None :: _ => None
  end.

Definition str_eqb (a b : str) : bool := if list_eq_dec Nat.eq_dec a b then true else false.
Fixpoint lookup (name : str) (d : list (str * oval)) : option oval :=
  match d with [] => None | (k, v) :: r => if str_eqb k name then Some v else lookup name r end.

(* style = simple (and form without explode): one text under the parameter's name *)
Definition decode_text (explode : bool) (sh : shape) (s : str) : option decoded :=
  match sh with
  | ShPrim => Some (DPrim s)
  | ShArray => Some (DArr (split comma s))
  | ShObject =>
      if explode
      then match all_some (map split_kv (split comma s)) with Some d => Some (DObj d) | None => None end
      else match pair_up (split comma s) with Some d => Some (DObj d) | None => None end
  end.

Definition oval_text (o : oval) : option str := match o with OStr s => Some s | ORaw _ => None end.

Definition decode (st : style) (explode : bool) (name : str) (sh : shape) (out : list (str * oval))
  : option decoded :=
  match st, explode, sh with
  | Form, true, ShObject =>       (* one entry per property *)
      match all_some (map (fun '(k, o) => match oval_text o with Some s => Some (k, s) | None => None end) out) with
      | Some d => Some (DObj d) | None => None end
  | Form, true, ShArray => None   (* name=a&name=b...: not representable in a dict; the documented exception *)
  | Form, _, _ =>
      match lookup name out with
      | Some o => match oval_text o with Some s => decode_text false sh s | None => None end
      | None => None end
  | Simple, _, _ =>
      match lookup name out with
      | Some o => match oval_text o with Some s => decode_text explode sh s | None => None end
      | None => None end
  end.

(* the values C19 quantifies over: text without the delimiter characters, non-empty items *)
Definition clean (s : str) : Prop := s <> [] /\ ~ In comma s /\ ~ In equals s.
Definition flat_ok (v : value) : Prop :=
  match v with
  | VStr s => True
  | VBool _ => True
  | VNum r => True
  | VList l => Forall (fun e => clean (estr e)) l
  | VDict d => Forall (fun '(k, e) => clean k /\ clean (estr e)) d
  | VOther => False
  end.

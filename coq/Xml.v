(* Xml.v -- MODEL of fences/xml_schema/parse.py and xpath.py (definitions only).
   A schema is an element tree (tag without namespace, attributes in document order, children); the numbers that
   generate_random_number draws from Python's random module at parse time are an input of the model (a list consumed
   in the order of the calls), string patterns of restrictions are outside the model. *)
From Coq Require Import String Ascii ZArith.
From Fences Require Export Graph GraphOps Format Regex Normalize.
Local Open Scope list_scope.

Inductive xml := XEl (tag : str) (attrs : list (str * str)) (children : list xml).

Inductive xpayload :=
| XPNone
| XPStart                       (* StartNode *)
| XPFetch (ns : option str)     (* FetchOutput *)
| XPAttr (name : str)           (* StartAttribute *)
| XPElem (tag : str)            (* StartNewElement *)
| XPSet (value : str).          (* SetValueLeaf *)

Record xbst := mkXbst { x_graph : graph; x_pay : list xpayload; x_draws : list Z }.
Definition xnew (k : kind) (id : option str) (p : xpayload) (st : xbst) : xbst * nat :=
  (mkXbst (x_graph st ++ [mkNode k id [] []]) (x_pay st ++ [p]) (x_draws st), length (x_graph st)).
Definition xadd (s t : nat) (st : xbst) : xbst := mkXbst (add_transition (x_graph st) s t) (x_pay st) (x_draws st).
Definition xnoop (all : bool) (id : option str) := xnew (KDec all true) id XPNone.
Definition xnoop_leaf (valid : bool) (id : option str) := xnew (KLeaf valid) id XPNone.
Definition xset (valid : bool) (id : option str) (v : str) := xnew (KLeaf valid) id (XPSet v).
Fixpoint xadd_times (k s t : nat) (st : xbst) : xbst :=
  match k with 0 => st | S k' => xadd_times k' s t (xadd s t st) end.

Definition xerr {A} : res A := LibErr EXmlSchema.

(* ---------- xpath.py ---------- *)
Definition xpath := list (str * nat).
Fixpoint join_path (l : xpath) : str :=
  match l with
  | [] => []
  | (t, i) :: r => t ++ kw "[" ++ nat_digits 20 i [] ++ kw "]" ++ (match r with [] => [] | _ => kw "/" ++ join_path r end)
  end.
Definition path_str (p : xpath) : str := kw "/" ++ join_path p.
Definition tag_of (e : xml) : str := match e with XEl t _ _ => t end.
Definition attrs_of (e : xml) : list (str * str) := match e with XEl _ a _ => a end.
Definition kids_of (e : xml) : list xml := match e with XEl _ _ c => c end.

(* path.enumerate(element): children with the index among the siblings of the same tag *)
Fixpoint count_tag (t : str) (seen : list str) : nat :=
  match seen with [] => 0 | x :: r => (if str_eqb x t then 1 else 0) + count_tag t r end.
Fixpoint enum_kids (p : xpath) (seen : list str) (l : list xml) : list (xpath * xml) :=
  match l with
  | [] => []
  | c :: r => (p ++ [(tag_of c, count_tag (tag_of c) seen)], c) :: enum_kids p (seen ++ [tag_of c]) r
  end.

(* ---------- attribute dictionaries ---------- *)
Fixpoint aget (k : str) (a : list (str * str)) : option str :=
  match a with [] => None | (k', v) :: r => if str_eqb k' k then Some v else aget k r end.
Definition ahas (k : string) (a : list (str * str)) : bool := match aget (kw k) a with Some _ => true | None => false end.
Definition remove_key (k : str) (l : list str) : list str := filter (fun x => negb (str_eqb x k)) l.
(* _lookup: the attribute must exist; it is ticked off in the set of parsed attributes *)
Definition lookup (a : list (str * str)) (k : string) (parsed : list str) : res (str * list str) :=
  match aget (kw k) a with
  | None => xerr
  | Some v => Ok (v, remove_key (kw k) parsed)
  end.
Arguments lookup a k%string parsed.

(* int(s) for a string of decimal digits (what the schemas of the dialect contain) *)
Definition parse_int (s : str) : option nat := match s with [] => None | _ => digits_val s 0 end.

(* str(n) for an integer *)
Definition z_str (z : Z) : str :=
  (if Z.ltb z 0 then kw "-" else []) ++ nat_digits 40 (Z.to_nat (Z.abs z)) [].

(* generate_random_number: the next drawn value (the harness supplies exactly the values Python drew) *)
Definition draw (st : xbst) : Z * xbst :=
  match x_draws st with
  | [] => (0%Z, st)
  | z :: r => (z, mkXbst (x_graph st) (x_pay st) r)
  end.

(* ---------- resolve_type ---------- *)
Inductive gen := GConst (s : string) | GRand.
Definition type_table : list (string * (list gen * list string)) :=
  [("xs:string", ([GConst "foo"; GConst "x"], []));
   ("xs:dateTime", ([GConst "2001-10-26T21:32:52"], ["foo"]));
   ("xs:positiveInteger", ([GRand], ["-10"; "foo"]));
   ("xs:integer", ([GRand], ["xyz"]));
   ("xs:boolean", ([GConst "true"; GConst "false"; GConst "0"; GConst "1"], ["foo"]));
   ("xs:unsignedInt", ([GRand], ["-10"; "bar"]));
   ("xs:unsignedShort", ([GRand], ["-10"; "bar"]));
   ("xs:unsignedByte", ([GRand], ["-10"; "bar"]));
   ("xs:int", ([GRand], ["bar"]));
   ("xs:double", ([GRand], ["bar"]));
   ("xs:decimal", ([GRand], ["bar"]));
   ("bcpLangString", ([GConst "de"; GConst "en"], [""]))]%string.
Fixpoint find_type (t : str) (tbl : list (string * (list gen * list string))) : option (list gen * list string) :=
  match tbl with [] => None | (n, v) :: r => if str_eqb (kw n) t then Some v else find_type t r end.

Definition resolve_type (t : str) (st : xbst) : xbst * nat :=
  match find_type t type_table with
  | Some (valid, invalid) =>
    let '(st, root) := xnoop false None st in
    let st := fold_left (fun st g =>
                           let '(v, st) := match g with
                                           | GConst s => (kw s, st)
                                           | GRand => let '(z, st) := draw st in (z_str z, st)
                                           end in
                           let '(st, l) := xset true None v st in xadd root l st) valid st in
    let st := fold_left (fun st s => let '(st, l) := xset false None (kw s) st in xadd root l st) invalid st in
    (st, root)
  | None => xnew (KRef t) None XPNone st
  end.

(* ---------- _parse_occurs / _repeat ---------- *)
Definition parse_occurs (a : list (str * str)) (parsed : list str) : res (nat * option nat * list str) :=
  do '(mn, parsed) <- (if ahas "minOccurs" a then
                         do '(s, parsed) <- lookup a "minOccurs" parsed;
                         match parse_int s with Some n => Ok (n, parsed) | None => xerr end
                       else Ok (1, parsed));
  do '(mx, parsed) <- (if ahas "maxOccurs" a then
                         do '(s, parsed) <- lookup a "maxOccurs" parsed;
                         if str_eqb s (kw "unbounded") then Ok (None, parsed)
                         else match parse_int s with Some n => Ok (Some n, parsed) | None => xerr end
                       else Ok (Some 1, parsed));
  Ok (mn, mx, parsed).

Definition repeat_node (child mn : nat) (mx : option nat) (st : xbst) : res (xbst * nat) :=
  let '(st, root) := xnoop false None st in
  let '(st, l) := xnoop_leaf (mn =? 0) None st in
  let st := xadd root l st in
  let mx := match mx with None => mn + 1 | Some m => m end in
  if mx <? mn then xerr else
  let st := if 0 <? mn then
              let '(st, sub) := xnoop true None st in xadd root sub (xadd_times mn sub child st)
            else st in
  let st := if 1 <? mn then
              let '(st, sub) := xnoop true None st in
              let st := xadd_times (mn - 1) sub child st in
              let '(st, l) := xnoop_leaf false None st in
              xadd root sub (xadd sub l st)
            else st in
  let st := if mx =? mn then st else
              let '(st, sub) := xnoop true None st in xadd root sub (xadd_times mx sub child st) in
  Ok (st, root).

(* ---------- the tag handlers ---------- *)
Definition known_tags : list string :=
  ["all"; "element"; "sequence"; "choice"; "simpleType"; "complexType"; "simpleContent"; "complexContent";
   "attribute"; "annotation"; "extension"; "restriction"; "any"]%string.
Definition is_tag (t : str) (s : string) : bool := str_eqb t (kw s).
Arguments is_tag t s%string.

Section Handlers.
(* parse_xml_element of the children (one recursion level down) *)
Variable rec : xml -> xpath -> xbst -> res (xbst * nat).

(* children attached to a fresh decision, in order *)
Definition attach_children (root : nat) (e : xml) (p : xpath) (st : xbst) : res xbst :=
  foldM (fun st '(sp, c) => do '(st, n) <- rec c sp st; Ok (xadd root n st)) (enum_kids p [] (kids_of e)) st.

Definition h_sequence (e : xml) (parsed : list str) (p : xpath) (st : xbst) : res (xbst * nat * list str) :=
  do parsed <- (if ahas "name" (attrs_of e) then do '(_, parsed) <- lookup (attrs_of e) "name" parsed; Ok parsed else Ok parsed);
  let '(st, root) := xnoop true (Some (path_str p)) st in
  do st <- attach_children root e p st;
  let st := match outs_of (x_graph st) root with
            | [] => let '(st, l) := xnoop_leaf true None st in xadd root l st
            | _ => st end in
  Ok (st, root, parsed).

Definition h_choice (e : xml) (parsed : list str) (p : xpath) (st : xbst) : res (xbst * nat * list str) :=
  do parsed <- (if ahas "name" (attrs_of e) then do '(_, parsed) <- lookup (attrs_of e) "name" parsed; Ok parsed else Ok parsed);
  let '(st, root) := xnoop false (Some (path_str p)) st in
  do st <- attach_children root e p st;
  Ok (st, root, parsed).

Definition h_type (e : xml) (parsed : list str) (p : xpath) (st : xbst) : res (xbst * nat * list str) :=
  do '(name, parsed) <- (if ahas "name" (attrs_of e) then do '(n, parsed) <- lookup (attrs_of e) "name" parsed; Ok (Some n, parsed)
                         else Ok (None, parsed));
  let '(st, root) := xnoop true name st in
  do st <- attach_children root e p st;
  let st := match outs_of (x_graph st) root with
            | [] => let '(st, l) := xnoop_leaf true None st in xadd root l st
            | _ => st end in
  Ok (st, root, parsed).

Definition h_content (e : xml) (parsed : list str) (p : xpath) (st : xbst) : res (xbst * nat * list str) :=
  let '(st, root) := xnoop true (Some (path_str p)) st in
  do st <- attach_children root e p st;
  Ok (st, root, parsed).

Definition h_extension (e : xml) (parsed : list str) (p : xpath) (st : xbst) : res (xbst * nat * list str) :=
  let '(st, root) := xnoop true (Some (path_str p)) st in
  do '(base, parsed) <- lookup (attrs_of e) "base" parsed;
  let '(st, b) := resolve_type base st in
  let st := xadd root b st in
  do st <- attach_children root e p st;
  Ok (st, root, parsed).

Definition h_leaf (p : xpath) (parsed : list str) (st : xbst) : res (xbst * nat * list str) :=
  let '(st, l) := xnoop_leaf true (Some (path_str p)) st in Ok (st, l, parsed).

Definition h_any (e : xml) (parsed : list str) (p : xpath) (st : xbst) : res (xbst * nat * list str) :=
  do parsed <- (if ahas "processContents" (attrs_of e)
                then do '(_, parsed) <- lookup (attrs_of e) "processContents" parsed; Ok parsed else Ok parsed);
  h_leaf p parsed st.

Definition h_element (e : xml) (parsed : list str) (p : xpath) (st : xbst) : res (xbst * nat * list str) :=
  do '(name, parsed) <- lookup (attrs_of e) "name" parsed;
  if ahas "type" (attrs_of e) then
    do '(ty, parsed) <- lookup (attrs_of e) "type" parsed;
    let '(st, root) := xnew (KDec false false) (Some (path_str p)) (XPElem name) st in
    let '(st, t) := resolve_type ty st in
    Ok (xadd root t st, root, parsed)
  else
    match kids_of e with
    | [c] =>
      let '(st, root) := xnew (KDec false false) (Some (path_str p)) (XPElem name) st in
      do '(st, n) <- rec c (p ++ [(tag_of c, 0)]) st;
      Ok (xadd root n st, root, parsed)
    | _ => xerr
    end.

Definition h_attribute (e : xml) (parsed : list str) (p : xpath) (st : xbst) : res (xbst * nat * list str) :=
  let a := attrs_of e in
  if ahas "ref" a then xerr else
  do '(name, parsed) <- lookup a "name" parsed;
  do '(required, parsed) <- (if ahas "use" a then do '(u, parsed) <- lookup a "use" parsed; Ok (str_eqb u (kw "required"), parsed)
                             else Ok (false, parsed));
  do parsed <- (if ahas "default" a then
                  if required then xerr else do '(_, parsed) <- lookup a "default" parsed; Ok parsed
                else Ok parsed);
  let '(st, super) := xnoop false (Some (path_str p)) st in
  let '(st, omit) := xnoop_leaf (negb required) None st in
  let st := xadd super omit st in
  let '(st, root) := xnew (KDec false false) None (XPAttr name) st in
  let st := xadd super root st in
  if ahas "fixed" a then
    do parsed <- (if ahas "type" a then do '(_, parsed) <- lookup a "type" parsed; Ok parsed else Ok parsed);
    if ahas "default" a then xerr else
    do '(fixed, parsed) <- lookup a "fixed" parsed;
    let '(st, l1) := xset true None fixed st in
    let st := xadd root l1 st in
    let '(st, l2) := xset false None (fixed ++ kw "_INVALID") st in
    Ok (xadd root l2 st, super, parsed)
  else if ahas "type" a then
    match kids_of e with
    | [] =>
      do '(ty, parsed) <- lookup a "type" parsed;
      let '(st, t) := resolve_type ty st in
      Ok (xadd root t st, super, parsed)
    | _ => xerr
    end
  else
    do st <- attach_children root e p st;
    Ok (st, super, parsed).

(* parse_restriction (enumerations, minLength / maxLength on strings; pattern is outside the model) *)
Definition h_restriction (e : xml) (parsed : list str) (p : xpath) (st : xbst) : res (xbst * nat * list str) :=
  do '(base, parsed) <- lookup (attrs_of e) "base" parsed;
  match kids_of e with
  | [] => let '(st, t) := resolve_type base st in Ok (st, t, parsed)
  | first :: _ =>
    if is_tag (tag_of first) "enumeration" then
      if negb (forallb (fun c => is_tag (tag_of c) "enumeration") (kids_of e)) then xerr else
      let '(st, root) := xnoop false (Some (path_str p)) st in
      do st <- foldM (fun st c => match aget (kw "value") (attrs_of c) with
                                  | Some v => let '(st, l) := xset true None v st in Ok (xadd root l st)
                                  | None => PyErr EKeyError end) (kids_of e) st;
      Ok (st, root, parsed)
    else
      if negb (existsb (fun c => is_tag (tag_of c) "pattern" || is_tag (tag_of c) "minLength" || is_tag (tag_of c) "maxLength") (kids_of e))
      then xerr else
      (* props: tag -> value, every child has exactly the attribute 'value', no tag twice *)
      do props <- foldM (fun (acc : list (str * str)) c =>
                           match attrs_of c with
                           | [(k, v)] => if str_eqb k (kw "value")
                                         then (match aget (tag_of c) acc with Some _ => xerr | None => Ok (acc ++ [(tag_of c, v)]) end)
                                         else xerr
                           | _ => xerr
                           end) (kids_of e) [];
      if negb (str_eqb base (kw "xs:string") || str_eqb base (kw "xs:token")) then xerr else
      match aget (kw "pattern") props with
      | Some _ => PyErr EOtherPy                    (* patterns: outside the model *)
      | None =>
        do mn <- match aget (kw "minLength") props with
                 | Some s => match parse_int s with Some n => Ok n | None => PyErr EValueError end
                 | None => Ok 0 end;
        do mx <- match aget (kw "maxLength") props with
                 | Some s => match parse_int s with Some n => Ok (Some n) | None => PyErr EValueError end
                 | None => Ok None end;
        let rest := filter (fun '(k, _) => negb (str_eqb k (kw "minLength") || str_eqb k (kw "maxLength"))) props in
        if match mx with Some m => m <? mn | None => false end then PyErr EAssertionError else
        match rest with
        | [] => let '(st, l) := xset true (Some (path_str p)) (repeat 120 mn) st in Ok (st, l, parsed)
        | _ => xerr
        end
      end
  end.

Definition dispatch (e : xml) (parsed : list str) (p : xpath) (st : xbst) : res (xbst * nat * list str) :=
  let t := tag_of e in
  if is_tag t "all" || is_tag t "sequence" then h_sequence e parsed p st
  else if is_tag t "element" then h_element e parsed p st
  else if is_tag t "choice" then h_choice e parsed p st
  else if is_tag t "simpleType" || is_tag t "complexType" then h_type e parsed p st
  else if is_tag t "simpleContent" || is_tag t "complexContent" then h_content e parsed p st
  else if is_tag t "attribute" then h_attribute e parsed p st
  else if is_tag t "annotation" then h_leaf p parsed st
  else if is_tag t "extension" then h_extension e parsed p st
  else if is_tag t "restriction" then h_restriction e parsed p st
  else if is_tag t "any" then h_any e parsed p st
  else xerr.
End Handlers.

(* parse_xml_element *)
Fixpoint parse_element (fuel : nat) (e : xml) (p : xpath) (st : xbst) : res (xbst * nat) :=
  match fuel with 0 => OutOfFuel | S f =>
  let parsed := map fst (attrs_of e) in
  do '(st, node, parsed) <- dispatch (parse_element f) e parsed p st;
  do '(st, node, parsed) <-
    (if ahas "minOccurs" (attrs_of e) || ahas "maxOccurs" (attrs_of e) then
       do '(mn, mx, parsed) <- parse_occurs (attrs_of e) parsed;
       do '(st, n) <- repeat_node node mn mx st;
       Ok (st, n, parsed)
     else Ok (st, node, parsed));
  match parsed with [] => Ok (st, node) | _ => xerr end
  end.

(* parse(): the first global element is the root, everything else is looked up by name *)
Definition parse_xsd (fuel : nat) (schema : xml) (draws : list Z) : res (xbst * nat) :=
  if negb (is_tag (tag_of schema) "schema") then xerr else
  let p0 : xpath := [(kw "schema", 0)] in
  let ns := aget (kw "targetNamespace") (attrs_of schema) in
  do '(st, elems, others) <-
    foldM (fun '(st, elems, others) '(sp, c) =>
             do '(st, n) <- parse_element fuel c sp st;
             if is_tag (tag_of c) "element" then Ok (st, elems ++ [n], others) else Ok (st, elems, others ++ [n]))
          (enum_kids p0 [] (kids_of schema)) (mkXbst [] [] draws, [], []);
  match elems with
  | [] => xerr
  | root :: rest =>
    do '(g, r) <- resolve fuel (x_graph st) root (rest ++ others);
    do g <- optimize fuel g r;
    let st := mkXbst g (x_pay st) (x_draws st) in
    let '(st, super) := xnew (KDec true false) (Some (path_str p0)) XPStart st in
    let st := xadd super r st in
    let '(st, fo) := xnew (KLeaf true) None (XPFetch ns) st in
    Ok (xadd super fo st, super)
  end.

(* ---------- apply semantics: the document a path builds ---------- *)
Inductive xdoc := XD (tag : str) (attrs : list (str * str)) (text : option str) (kids : list xdoc).

(* a Binding: the element at a position of the tree (child indexes from the dummy root) and an optional attribute *)
Definition binding := (list nat * option str)%type.

Fixpoint aset (k v : str) (a : list (str * str)) : list (str * str) :=
  match a with
  | [] => [(k, v)]
  | (k', v') :: r => if str_eqb k' k then (k, v) :: r else (k', v') :: aset k v r
  end.

Fixpoint doc_update (d : xdoc) (p : list nat) (f : xdoc -> xdoc) : option xdoc :=
  match p with
  | [] => Some (f d)
  | i :: r =>
    match d with XD t a tx ks =>
      match nth_error ks i with
      | Some c => match doc_update c r f with
                  | Some c' => Some (XD t a tx (set_nth ks i c'))
                  | None => None end
      | None => None
      end
    end
  end.
Fixpoint doc_get (d : xdoc) (p : list nat) : option xdoc :=
  match p with
  | [] => Some d
  | i :: r => match d with XD _ _ _ ks => match nth_error ks i with Some c => doc_get c r | None => None end end
  end.

Definition xapply (pl : xpayload) (b : option binding) (doc : xdoc) : res (option binding * xdoc * option xdoc) :=
  (* returns the data handed on, the tree, and the finished document when the output node ran *)
  match pl with
  | XPNone => Ok (b, doc, None)
  | XPStart => Ok (Some ([], None), XD (kw "dummy") [] None [], None)
  | XPElem tag =>
    match b with
    | Some (p, _) =>
      match doc_get doc p with
      | Some (XD _ _ _ ks) =>
        match doc_update doc p (fun d => match d with XD t a tx ks => XD t a tx (ks ++ [XD tag [] None []]) end) with
        | Some doc' => Ok (Some (p ++ [length ks], None), doc', None)
        | None => PyErr EAttributeError
        end
      | None => PyErr EAttributeError
      end
    | None => PyErr EAttributeError
    end
  | XPAttr name =>
    match b with
    | Some (p, _) => Ok (Some (p, Some name), doc, None)
    | None => PyErr EAttributeError
    end
  | XPSet v =>
    match b with
    | Some (p, attr) =>
      match doc_update doc p (fun d => match d with XD t a tx ks =>
                                         match attr with Some k => XD t (aset k v a) tx ks | None => XD t a (Some v) ks end end) with
      | Some doc' => Ok (b, doc', None)
      | None => PyErr EAttributeError
      end
    | None => PyErr EAttributeError
    end
  | XPFetch ns =>
    match b with
    | Some (p, _) =>
      match doc_get doc p with
      | Some (XD _ _ _ (XD t a tx ks :: _)) =>
        let root := match ns with Some n => XD t (aset (kw "xmlns") n a) tx ks | None => XD t a tx ks end in
        Ok (b, doc, Some root)
      | _ => PyErr EOtherPy                   (* StopIteration: no element was created *)
      end
    | None => PyErr EAttributeError
    end
  end.

Definition xpay (st : xbst) (n : nat) : xpayload := nth n (x_pay st) XPNone.

Fixpoint xrun (fuel : nat) (st : xbst) (n : nat) (p : list nat) (b : option binding) (doc : xdoc) (out : option xdoc)
  : res (option binding * list nat * xdoc * option xdoc) :=
  match fuel with 0 => OutOfFuel | S f =>
  let g := x_graph st in
  match kind_of g n with
  | KRef _ => PyErr ENotImplemented
  | KLeaf _ => do '(b', doc', o) <- xapply (xpay st n) b doc;
               Ok (b', p, doc', match o with Some d => Some d | None => out end)
  | KDec true _ =>
    do '(b1, doc1, o1) <- xapply (xpay st n) b doc;
    foldM (fun '(_, p, doc, out) c => xrun f st c p b1 doc out) (outs_of g n)
          (None, p, doc1, match o1 with Some d => Some d | None => out end)
  | KDec false _ =>
    do '(b1, doc1, o1) <- xapply (xpay st n) b doc;
    match p with
    | [] => PyErr EIndexError
    | i :: p' => match nth_error (outs_of g n) i with
                 | Some c => xrun f st c p' b1 doc1 (match o1 with Some d => Some d | None => out end)
                 | None => PyErr EIndexError end
    end
  end end.

(* graph.execute(path): the document *)
Definition xsample (fuel : nat) (st : xbst) (root : nat) (p : list nat) : res xdoc :=
  do '(_, rest, _, out) <- xrun fuel st root p None (XD [] [] None []) None;
  match rest with
  | [] => match out with Some d => Ok d | None => PyErr EOtherPy end
  | _ => LibErr EInternal
  end.

(* Graph.v -- executable MODEL of fences/core/node.py (definitions only, no proofs).

   A graph is a table of nodes; node n of the table stands for one Python object.
   The *structure* (kind, id, outgoing targets, incoming records) is what the public API
   builds (NewNode / add_transition); the two distance annotations that generate_paths()
   writes into the transition objects are kept in separate maps:
     lv s i   = s.outgoing_transitions[i]._len_to_valid_node      (None = inf)
     lr n pos = n.incoming_transitions[pos]._len_to_root
   Recursion is on fuel = Python recursion depth; OutOfFuel stands for RecursionError.

   The record [variant] selects between the code as pinned (all flags false) and the code after
   the "fix:" commits recorded in /verif/known_findings.json:
     fix_leaf : Node._generate returns is_valid for a Leaf instead of True
     fix_af   : Node._analyze_forwards looks the incoming record up by (source, index),
                not by index alone
     fix_reset: generate_paths resets the distances of all reachable nodes before analysing
   The correspondence check runs the variant that matches /repo's working tree. *)
From Fences Require Export Base.

Inductive kind :=
| KLeaf (valid : bool)
| KDec (all : bool) (noop : bool)     (* noop: instance of NoOpDecision (matters for optimize) *)
| KRef (name : list nat).      (* Reference.reference, a string (code points) *)

Record node := mkNode {
  nkind : kind;
  nid   : option (list nat);   (* Node.id: None, or a string (code points; [] = '') *)
  outs  : list nat;            (* targets of outgoing_transitions, in order *)
  ins   : list (nat * nat)     (* incoming_transitions: (source, outgoing_idx), in order *)
}.
Definition graph := list node.
Definition dummy : node := mkNode (KLeaf true) None [] [].
Definition getn (g : graph) (n : nat) : node := nth n g dummy.
Definition kind_of g n := nkind (getn g n).
Definition outs_of g n := outs (getn g n).
Definition ins_of g n := ins (getn g n).
Definition is_dec g n := match kind_of g n with KDec _ _ => true | _ => false end.
Definition is_all g n := match kind_of g n with KDec a _ => a | _ => false end.
Definition is_leaf g n := match kind_of g n with KLeaf _ => true | _ => false end.
Definition leaf_is g (v : bool) n := match kind_of g n with KLeaf b => Bool.eqb b v | _ => false end.

(* ---------- building graphs with the public API ---------- *)
Inductive op :=
| NewNode (k : kind) (id : option (list nat))       (* Leaf(...), Decision(...), Reference(...) *)
| AddT (src tgt : nat).                      (* src.add_transition(tgt) *)

Fixpoint upd_node (g : graph) (n : nat) (f : node -> node) : graph :=
  match g, n with
  | [], _ => []
  | x :: r, 0 => f x :: r
  | x :: r, S k => x :: upd_node r k f
  end.

Definition add_transition (g : graph) (s t : nat) : graph :=
  let idx := length (outs_of g s) in
  let g1 := upd_node g t (fun nd => mkNode (nkind nd) (nid nd) (outs nd) (ins nd ++ [(s, idx)])) in
  upd_node g1 s (fun nd => mkNode (nkind nd) (nid nd) (outs nd ++ [t]) (ins nd)).

Definition apply_op (g : graph) (o : op) : graph :=
  match o with
  | NewNode k id => g ++ [mkNode k id [] []]
  | AddT s t => if is_dec g s && (t <? length g) then add_transition g s t else g
      (* Leaf / Reference have no add_transition (AttributeError) and a target is always an
         existing object: such calls cannot be written against the API, the model ignores them *)
  end.
Definition build (ops : list op) : graph := fold_left apply_op ops [].

(* ---------- annotation maps ---------- *)
Definition amap := nat -> nat -> dist.
Definition aempty : amap := fun _ _ => None.
Definition aupd (m : amap) (a b : nat) (v : dist) : amap :=
  fun x y => if (x =? a) && (y =? b) then v else m x y.

(* first index holding the strictly smallest finite value
   (Python: "if min_len > x: selected = idx; min_len = x", min_len starting at inf) *)
Fixpoint argmin_go (l : list dist) (k : nat) (best : option nat) (bv : dist) : option nat :=
  match l with
  | [] => best
  | d :: r => if dist_lt d bv then argmin_go r (S k) (Some k) d else argmin_go r (S k) best bv
  end.
Definition argmin (l : list dist) := argmin_go l 0 None None.
Definition row (m : amap) (n len : nat) : list dist := map (m n) (seq 0 len).

Record variant := mkVariant { fix_leaf : bool; fix_af : bool; fix_reset : bool }.

(* forget the annotations of the nodes in [its] (generate_paths "Reset counter", after the fix) *)
Definition areset (its : list nat) (m : amap) : amap :=
  fun a b => if mem a its then None else m a b.

Record entry := mkEntry { etarget : nat; epath : list nat; evalid : bool }.

Section Model.
Variable V : variant.

(* ---------- Node.items(): DFS pre-order ---------- *)
Fixpoint dfs (fuel : nat) (g : graph) (vis : list nat) (n : nat) : res (list nat) :=
  match fuel with
  | 0 => OutOfFuel
  | S f =>
    if mem n vis then Ok vis else
    let vis' := vis ++ [n] in
    if is_dec g n then foldM (dfs f g) (outs_of g n) vis' else Ok vis'
  end.
Definition items fuel g root := dfs fuel g [] root.

(* ---------- Node._execute: the interpreter of a path (also the reference semantics) ------
   returns the trace of nodes whose apply() ran, in order, and the unconsumed rest of the path *)
Fixpoint exec (fuel : nat) (g : graph) (n : nat) (p : list nat) : res (list nat * list nat) :=
  match fuel with
  | 0 => OutOfFuel
  | S f =>
    match kind_of g n with
    | KRef _ => PyErr ENotImplemented            (* Node.apply is not overridden by Reference *)
    | KLeaf _ => Ok ([n], p)
    | KDec true _ =>
        foldM (fun '(tr, p) t => do '(tr', p') <- exec f g t p; Ok (tr ++ tr', p'))
              (outs_of g n) ([n], p)
    | KDec false _ =>
        match p with
        | [] => PyErr EIndexError
        | i :: p' =>
          match nth_error (outs_of g n) i with
          | None => PyErr EIndexError
          | Some t => do '(tr, r) <- exec f g t p'; Ok (n :: tr, r)
          end
        end
    end
  end.
Definition execute fuel g n p : res (list nat) :=
  do '(tr, r) <- exec fuel g n p;
  match r with [] => Ok tr | _ => LibErr EInternal end.

(* the same interpreter with the data flow made visible: every applied node is recorded together
   with the node whose apply() produced the data it received (None = the caller's data), and the
   node whose apply() result is returned (None = Python's None of a do-all without children) *)
Fixpoint execv (fuel : nat) (g : graph) (from : option nat) (n : nat) (p : list nat)
  : res (list (nat * option nat) * list nat * option nat) :=
  match fuel with
  | 0 => OutOfFuel
  | S f =>
    match kind_of g n with
    | KRef _ => PyErr ENotImplemented
    | KLeaf _ => Ok ([(n, from)], p, Some n)
    | KDec true _ =>
        foldM (fun '(tr, p, _) t => do '(tr', p', v') <- execv f g (Some n) t p; Ok (tr ++ tr', p', v'))
              (outs_of g n) ([(n, from)], p, None)
    | KDec false _ =>
        match p with
        | [] => PyErr EIndexError
        | i :: p' =>
          match nth_error (outs_of g n) i with
          | None => PyErr EIndexError
          | Some t => do '(tr, r, v) <- execv f g (Some n) t p'; Ok ((n, from) :: tr, r, v)
          end
        end
    end
  end.
Definition executev fuel g n p : res (list (nat * option nat) * option nat) :=
  do '(tr, r, v) <- execv fuel g None n p;
  match r with [] => Ok (tr, v) | _ => LibErr EInternal end.

(* ---------- Node._analyze_forwards ---------- *)
Definition af_pick (n idx : nat) (rec : nat * nat) : bool :=
  let '(s, i) := rec in (i =? idx) && (if fix_af V then s =? n else true).

Fixpoint af (fuel : nat) (g : graph) (lr : amap) (n len : nat) : res amap :=
  match fuel with
  | 0 => OutOfFuel
  | S f =>
    if is_dec g n then
      foldM (fun lr '(idx, t) =>
               match index_where (af_pick n idx) (ins_of g t) 0 with
               | None => PyErr EIndexError
               | Some pos =>
                 if dist_lt (Some len) (lr t pos)
                 then af f g (aupd lr t pos (Some len)) t (S len)
                 else Ok lr
               end)
            (enumerate (outs_of g n)) lr
    else Ok lr
  end.

(* ---------- Node._analyze_backwards ---------- *)
Definition max_outs (g : graph) (lv : amap) (n : nat) : dist :=
  fold_right dist_max (Some 0) (row lv n (length (outs_of g n))).

Fixpoint ab (fuel : nat) (g : graph) (lv : amap) (n len : nat) : res amap :=
  match fuel with
  | 0 => OutOfFuel
  | S f =>
    let go (L : nat) :=
      foldM (fun lv '(s, idx) =>
               if idx <? length (outs_of g s) then
                 if dist_lt (Some L) (lv s idx)
                 then ab f g (aupd lv s idx (Some L)) s (S L)
                 else Ok lv
               else PyErr EIndexError)
            (ins_of g n) lv in
    if is_all g n then
      match outs_of g n with
      | [] => PyErr EValueError                      (* max() of an empty sequence *)
      | _ => match max_outs g lv n with None => Ok lv | Some L => go L end
      end
    else go len
  end.

(* ---------- Node._generate ---------- *)
Fixpoint gen (fuel : nat) (g : graph) (lv : amap) (n : nat)
  : res (list nat * list nat * bool) :=      (* path appended, nodes visited, satisfiable *)
  match fuel with
  | 0 => OutOfFuel
  | S f =>
    match kind_of g n with
    | KLeaf v => Ok ([], [n], if fix_leaf V then v else true)
    | KRef _ => Ok ([], [n], true)
    | KDec all _ =>
      match outs_of g n with
      | [] => Ok ([], [n], true)
      | o0 :: _ =>
        if all then
          foldM (fun '(p, vs, b) t =>
                   do '(p', vs', b') <- gen f g lv t; Ok (p ++ p', vs ++ vs', b && b'))
                (outs_of g n) ([], [n], true)
        else
          let '(idx, b0) :=
            match argmin (row lv n (length (outs_of g n))) with
            | Some i => (i, true) | None => (0, false) end in
          let t := nth idx (outs_of g n) o0 in
          do '(p, vs, b) <- gen f g lv t; Ok (idx :: p, n :: vs, b0 && b)
      end
    end
  end.

(* ---------- Node._backward ---------- *)
Fixpoint backward (fuel : nat) (g : graph) (lr : amap) (n : nat)
  : res (nat * list nat * list nat) :=       (* root found, indices appended, nodes visited *)
  match fuel with
  | 0 => OutOfFuel
  | S f =>
    match ins_of g n with
    | [] => Ok (n, [], [n])
    | r0 :: _ =>
      match argmin (row lr n (length (ins_of g n))) with
      | None => PyErr EAttributeError            (* predecessor_transition is None *)
      | Some pos =>
        let '(s, idx) := nth pos (ins_of g n) r0 in
        do '(r, bp, vs) <- backward f g lr s; Ok (r, idx :: bp, n :: vs)
      end
    end
  end.

(* ---------- Node._forward; [bp] is the backward path already reversed (pop(-1) = head) ---- *)
Fixpoint forward (fuel : nat) (g : graph) (lv : amap) (n : nat) (bp : list nat)
  : res (list nat * list nat * bool * list nat) :=  (* path, visited, satisfiable, rest of bp *)
  match fuel with
  | 0 => OutOfFuel
  | S f =>
    match bp with
    | [] => Ok ([], [], true, [])
    | i :: bp' =>
      match kind_of g n with
      | KDec true _ =>
          foldM (fun '(p, vs, b, rest) '(idx, t) =>
                   if idx =? i then
                     do '(p', vs', b', rest') <- forward f g lv t rest;
                     Ok (p ++ p', vs ++ vs', b && b', rest')
                   else
                     do '(p', vs', b') <- gen f g lv t;
                     Ok (p ++ p', vs ++ vs', b && b', rest))
                (enumerate (outs_of g n)) ([], [], true, bp')
      | KDec false _ =>
          match nth_error (outs_of g n) i with
          | None => PyErr EIndexError
          | Some t => do '(p, vs, b, rest) <- forward f g lv t bp'; Ok (i :: p, vs, b, rest)
          end
      | _ => PyErr EAssertionError
      end
    end
  end.

(* ---------- Node.generate_paths ---------- *)
Definition cast_err {A B} (r : res A) : res B :=
  match r with Ok _ => PyErr EOtherPy | LibErr c => LibErr c | PyErr c => PyErr c | OutOfFuel => OutOfFuel end.

(* the generator: entries yielded so far, and how it ended *)
Fixpoint gp_loop (k fuel : nat) (g : graph) (lv lr : amap) (tv : list nat)
  : list entry * res unit :=
  match tv with
  | [] => ([], Ok tt)
  | next :: _ =>
    match k with
    | 0 => ([], OutOfFuel)
    | S k' =>
      match backward fuel g lr next with
      | Ok (r, bp, vs) =>
        match forward fuel g lv r (rev bp) with
        | Ok (fp, vs', sat, _) =>
          let e := mkEntry next fp (leaf_is g true next && sat) in
          let seen := vs ++ vs' in
          let tv' := filter (fun x => negb (mem x seen)) tv in
          let '(es, st) := gp_loop k' fuel g lv lr tv' in
          (e :: es, st)
        | e => ([], cast_err e)
        end
      | e => ([], cast_err e)
      end
    end
  end.

Record analysis := mkAnalysis { a_valid : list nat; a_invalid : list nat; a_lr : amap; a_lv : amap }.

Definition analyse (fuel : nat) (g : graph) (root : nat) (lr0 lv0 : amap) : res analysis :=
  do its <- items fuel g root;
  let valid := filter (leaf_is g true) its in
  let invalid := filter (leaf_is g false) its in
  let lr0 := if fix_reset V then areset its lr0 else lr0 in
  let lv0 := if fix_reset V then areset its lv0 else lv0 in
  do lr <- af fuel g lr0 root 0;
  do lv <- foldM (fun lv l => ab fuel g lv l 0) valid lv0;
  Ok (mkAnalysis valid invalid lr lv).

Definition generate_paths (fuel : nat) (g : graph) (root : nat) (lr0 lv0 : amap)
  : res (analysis * (list entry * res unit)) :=
  do a <- analyse fuel g root lr0 lv0;
  let tv := a_valid a ++ a_invalid a in
  Ok (a, gp_loop (length tv) fuel g (a_lv a) (a_lr a) tv).

End Model.

(* what a caller of generate_paths() on a freshly built graph observes *)
Definition gp_entries (V : variant) (fuel : nat) (g : graph) (root : nat)
  : option (list entry * res unit) :=
  match generate_paths V fuel g root aempty aempty with
  | Ok (_, r) => Some r
  | _ => None
  end.

Definition V_pinned := mkVariant false false false.
Definition V_fixed := mkVariant true true true.

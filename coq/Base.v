(* Base.v -- result type with Python exception classes, option-nat as "inf", list utilities.
   Definitions only (no proofs), so that the executable model still builds when a proof breaks. *)
From Coq Require Export List Arith Bool Lia.
Export ListNotations.

(* Exception classes the models distinguish.  Lib* derive from FencesException. *)
Inductive ecls :=
| EResolveReference | EInternal | ENormalization | EJsonPointer | EJsonSchema
| ERegex | EGrammar | EXmlSchema | EOpenApi | EConfig          (* library exceptions *)
| EIndexError | EKeyError | EAttributeError | EAssertionError | ETypeError | EValueError
| ENotImplemented | EOtherPy.                                  (* anything else *)

Inductive res (A : Type) :=
| Ok (a : A)
| LibErr (c : ecls)      (* an exception derived from fences.core.exception.FencesException *)
| PyErr (c : ecls)       (* any other Python exception *)
| OutOfFuel.             (* recursion deeper than the fuel: CPython's RecursionError *)
Arguments Ok {A} a. Arguments LibErr {A} c. Arguments PyErr {A} c. Arguments OutOfFuel {A}.

Definition bind {A B} (r : res A) (f : A -> res B) : res B :=
  match r with Ok a => f a | LibErr c => LibErr c | PyErr c => PyErr c | OutOfFuel => OutOfFuel end.
Notation "'do' x <- r ; k" := (bind r (fun x => k)) (at level 200, x name, r at level 100, k at level 200).
Notation "'do' ' p <- r ; k" := (bind r (fun x => match x with p => k end))
  (at level 200, p pattern, r at level 100, k at level 200).

Definition is_ok {A} (r : res A) : bool := match r with Ok _ => true | _ => false end.

(* option nat as a distance: None = float('inf') *)
Definition dist := option nat.
Definition dist_lt (a b : dist) : bool :=      (* a < b *)
  match a, b with
  | Some x, Some y => x <? y
  | Some _, None => true
  | None, _ => false
  end.
Definition dist_max (a b : dist) : dist :=
  match a, b with Some x, Some y => Some (Nat.max x y) | _, _ => None end.

Fixpoint mem (n : nat) (l : list nat) : bool :=
  match l with [] => false | x :: r => (x =? n) || mem n r end.

Fixpoint index_where {A} (p : A -> bool) (l : list A) (k : nat) : option nat :=
  match l with [] => None | x :: r => if p x then Some k else index_where p r (S k) end.

Fixpoint enum_from {A} (k : nat) (l : list A) : list (nat * A) :=
  match l with [] => [] | x :: r => (k, x) :: enum_from (S k) r end.
Definition enumerate {A} (l : list A) := enum_from 0 l.

(* monadic left fold *)
Fixpoint foldM {A B} (f : A -> B -> res A) (l : list B) (a : A) : res A :=
  match l with [] => Ok a | x :: r => do a' <- f a x; foldM f r a' end.

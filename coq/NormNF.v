(* NormNF.v -- normalize() returns a schema in normal form (C16): an any-of list of combinator-free keyword sets
   at the top and in every nested sub-schema, every reference pointing at an entry of the result's own $defs,
   every entry of $defs again in normal form. *)
From Fences Require Import Normalize NormShape NormRef NormDnf.
From Coq Require Import String.
Local Open Scope list_scope.

(* ---------- _inline_refs leaves no reference where _to_dnf looks ---------- *)
Section Inline.
Variable f : nat.
Variable root : json.
Hypothesis IH : forall s s' c, inline_refs f root s = Ok (s', c) -> RF s'.

Lemma step_list k dd c dd' c' :
  match dget (kw k) dd with
  | Some j => do l <- as_list j;
              do '(l', c') <- foldM (fun '(acc, cc) s => do '(s', c'') <- inline_refs f root s; Ok (acc ++ [s'], cc || c'')) l ([], c);
              Ok (dset (kw k) (JArr l') dd, c')
  | None => Ok (dd, c)
  end = Ok (dd', c') ->
  (forall key, key <> kw k -> dget key dd' = dget key dd) /\
  (forall l x, dget (kw k) dd' = Some (JArr l) -> In x l -> RF x).
Proof.
  intros H. destruct (dget (kw k) dd) as [j|] eqn:G.
  - destruct (as_list j) as [l| | |]; cbn [bind] in H; try discriminate.
    match type of H with bind ?X _ = _ => destruct X as [[l' c2]| | |] eqn:E end; cbn [bind] in H; try discriminate.
    inversion H; subst dd' c'. split.
    + intros key N. apply dget_dset_other. auto.
    + intros l0 x G0 Hx. rewrite dget_dset_same in G0. inversion G0; subst l0.
      revert x Hx.
      eapply (foldM_inv (fun st : list json * bool => forall x, In x (fst st) -> RF x)) with (a := (l', c2)); [| |exact E].
      * intros x [].
      * intros [acc cc] s [acc' cc'] _ Cacc Hst. cbv beta iota in Hst.
        destruct (inline_refs f root s) as [[s' c'']| | |] eqn:EI; cbn [bind] in Hst; try discriminate.
        inversion Hst; subst. cbn [fst] in *. intros x Hx. apply in_app_or in Hx. destruct Hx as [Hx|[<-|[]]]; [auto|].
        eapply IH; eauto.
  - inversion H; subst. split; auto. intros l x G0. rewrite G in G0. discriminate.
Qed.

Lemma step_single k dd c dd' c' :
  match dget (kw k) dd with
  | Some s => do '(s', c') <- inline_refs f root s; Ok (dset (kw k) s' dd, c || c')
  | None => Ok (dd, c)
  end = Ok (dd', c') ->
  (forall key, key <> kw k -> dget key dd' = dget key dd) /\
  (forall x, dget (kw k) dd' = Some x -> RF x).
Proof.
  intros H. destruct (dget (kw k) dd) as [s|] eqn:G.
  - destruct (inline_refs f root s) as [[s' c2]| | |] eqn:EI; cbn [bind] in H; try discriminate.
    inversion H; subst dd' c'. split.
    + intros key N. apply dget_dset_other. auto.
    + intros x G0. rewrite dget_dset_same in G0. inversion G0; subst. eapply IH; eauto.
  - inversion H; subst. split; auto. intros x G0. rewrite G in G0. discriminate.
Qed.
End Inline.

Lemma RF_norm_true : RF NORM_TRUE.
Proof. apply RF_anyof. intros x [<-|[]]. apply RF_nil. Qed.
Lemma RF_norm_false : RF NORM_FALSE.
Proof.
  apply RF_anyof. intros x [<-|[]]. apply RF_nocomb. intros k Hk. cbv in Hk.
  repeat (destruct Hk as [<-|Hk]; [reflexivity|]). contradiction.
Qed.

Ltac kwne := let X := fresh in intros X; cbv in X; discriminate X.

Theorem inline_refs_RF : forall f root s s' c, inline_refs f root s = Ok (s', c) -> RF s'.
Proof.
  induction f as [|f IH]; intros root s s' c H; cbn [inline_refs] in H; [discriminate|].
  destruct s as [|[]|z|st|l|d]; try discriminate.
  - inversion H; subst. apply RF_norm_true.
  - inversion H; subst. apply RF_norm_false.
  - match type of H with bind ?X _ = _ => destruct X as [[d1 c1]| | |] eqn:E1 end; cbn [bind] in H; try discriminate.
    assert (R1 : dget REF d1 = None).
    { destruct (dget (kw "$ref") d) as [[| | |r| |]|] eqn:G; try discriminate.
      - destruct (pointer_from_string r) as [p| | |]; cbn [bind] in E1; try discriminate.
        destruct (pointer_lookup p root) as [target| | |]; cbn [bind] in E1; try discriminate.
        inversion E1; subst. reflexivity.
      - inversion E1; subst. exact G. }
    cbn [foldM] in H.
    (* the three list-valued combinators *)
    match type of H with bind (bind ?X _) _ = _ => destruct X as [[da ca]| | |] eqn:Ea end; cbn [bind] in H; try discriminate.
    destruct (step_list f root (IH root) _ _ _ _ _ Ea) as [Ka La].
    match type of H with bind (bind ?X _) _ = _ => destruct X as [[db cb]| | |] eqn:Eb end; cbn [bind] in H; try discriminate.
    destruct (step_list f root (IH root) _ _ _ _ _ Eb) as [Kb Lb].
    match type of H with bind (bind ?X _) _ = _ => destruct X as [[dc cc]| | |] eqn:Ec end; cbn [bind] in H; try discriminate.
    destruct (step_list f root (IH root) _ _ _ _ _ Ec) as [Kc Lc].
    (* the four single-valued ones *)
    match type of H with bind (bind ?X _) _ = _ => destruct X as [[dn cn]| | |] eqn:En end; cbn [bind] in H; try discriminate.
    destruct (step_single f root (IH root) _ _ _ _ _ En) as [Kn Ln].
    match type of H with bind (bind ?X _) _ = _ => destruct X as [[di ci]| | |] eqn:Ei end; cbn [bind] in H; try discriminate.
    destruct (step_single f root (IH root) _ _ _ _ _ Ei) as [Ki Li].
    match type of H with bind (bind ?X _) _ = _ => destruct X as [[dt ct]| | |] eqn:Et end; cbn [bind] in H; try discriminate.
    destruct (step_single f root (IH root) _ _ _ _ _ Et) as [Kt Lt].
    match type of H with bind (bind ?X _) _ = _ => destruct X as [[de ce]| | |] eqn:Ee end; cbn [bind] in H; try discriminate.
    destruct (step_single f root (IH root) _ _ _ _ _ Ee) as [Ke Le].
    inversion H; subst s' c. clear H.
    apply RF_obj.
    + unfold REF. rewrite Ke, Kt, Ki, Kn, Kc, Kb, Ka by kwne. exact R1.
    + intros k l x Hk G Hx. cbv in Hk. destruct Hk as [<-|[<-|[<-|[]]]].
      * rewrite Ke, Kt, Ki, Kn, Kc, Kb in G by kwne. eapply La; eauto.
      * rewrite Ke, Kt, Ki, Kn, Kc in G by kwne. eapply Lb; eauto.
      * rewrite Ke, Kt, Ki, Kn in G by kwne. eapply Lc; eauto.
    + intros k x Hk G. cbv in Hk. destruct Hk as [<-|[<-|[<-|[<-|[]]]]].
      * rewrite Ke, Kt, Ki in G by kwne. eapply Ln; eauto.
      * rewrite Ke, Kt in G by kwne. eapply Li; eauto.
      * rewrite Ke in G by kwne. eapply Lt; eauto.
      * eapply Le; eauto.
Qed.

(* ---------- the normal form ---------- *)
Definition SUBKEYS : list str := kws ["additionalProperties"; "items"; "additionalItems"; "contains"]%string.

Inductive nf (k : nat) : json -> Prop :=
| nf_intro alts : (forall a, In a alts -> nfalt k a) -> nf k (obj1 "anyOf" (JArr alts))
with nfalt (k : nat) : json -> Prop :=
| nfalt_ref i : i < k -> nfalt k (obj1 "$ref" (JStr (ref_name i)))
| nfalt_kw d : clean d ->
    (forall key s, In key SUBKEYS -> dget key d = Some s -> nf k s) ->
    (forall pj, dget (kw "properties") d = Some pj -> exists props, pj = JObj props) ->
    (forall props n s, dget (kw "properties") d = Some (JObj props) -> In (n, s) props -> nf k s) ->
    (forall pj, dget (kw "prefixItems") d = Some pj -> exists items, pj = JArr items) ->
    (forall items s, dget (kw "prefixItems") d = Some (JArr items) -> In s items -> nf k s) ->
    nfalt k (JObj d).

Scheme nf_mind := Induction for nf Sort Prop
  with nfalt_mind := Induction for nfalt Sort Prop.

Lemma nf_mono k j : nf k j -> forall k', k <= k' -> nf k' j.
Proof.
  intros H. induction H using nf_mind with (P0 := fun a _ => forall k', k <= k' -> nfalt k' a); intros k' L.
  - constructor. intros a Ha. apply H; auto.
  - constructor. lia.
  - constructor; auto.
    + intros key s Hk G. eapply H; eauto.
    + intros props nm s G Hin. eapply H0; eauto.
    + intros items s G Hin. eapply H1; eauto.
Qed.

Lemma nfalt_mono k a : nfalt k a -> forall k', k <= k' -> nfalt k' a.
Proof.
  intros H k' L. destruct H.
  - constructor. lia.
  - constructor; auto.
    + intros key s Hk G. eapply nf_mono; eauto.
    + intros props nm s G Hin. eapply nf_mono; eauto.
    + intros items s G Hin. eapply nf_mono; eauto.
Qed.

(* ---------- the definitions table ---------- *)
Lemma ref_set_length i v : forall r, List.length (ref_set i v r) = List.length r.
Proof.
  revert i. induction i as [|i IH]; intros [|[k0 v0] r]; cbn [ref_set List.length]; auto.
Qed.

Lemma ref_set_other i v : forall r j, j <> i -> nth_error (ref_set i v r) j = nth_error r j.
Proof.
  induction i as [|i IH]; intros [|[k0 v0] r] j N; cbn [ref_set]; auto.
  - destruct j; [contradiction|reflexivity].
  - destruct j; [reflexivity|]. cbn [nth_error]. apply IH. lia.
Qed.

Lemma ref_set_same i v : forall r k0 v0, nth_error r i = Some (k0, v0) -> nth_error (ref_set i v r) i = Some (k0, v).
Proof.
  induction i as [|i IH]; intros [|[k1 v1] r] k0 v0 H; cbn [ref_set nth_error] in *; try discriminate.
  - inversion H; subst. reflexivity.
  - eapply IH; eauto.
Qed.

Lemma ref_index_lt k : forall r i0 i, ref_index k r i0 = Some i -> i0 <= i < i0 + List.length r.
Proof.
  induction r as [|[k' v'] r IH]; intros i0 i H; cbn [ref_index] in H; [discriminate|].
  cbn [List.length]. destruct (json_eqb k' k); [inversion H; subst; lia|]. apply IH in H. lia.
Qed.

Definition ext (nr nr' : refs) : Prop :=
  List.length nr <= List.length nr' /\ forall i, i < List.length nr -> nth_error nr' i = nth_error nr i.
Definition new_nf (nr nr' : refs) : Prop :=
  forall i key v, List.length nr <= i -> nth_error nr' i = Some (key, v) -> nf (List.length nr') v.
Definition grows (nr nr' : refs) : Prop := ext nr nr' /\ new_nf nr nr'.

Lemma grows_refl nr : grows nr nr.
Proof.
  split; [split; auto|]. intros i key v L H.
  assert (i < List.length nr) by (apply nth_error_Some; congruence). lia.
Qed.

Lemma grows_trans a b c : grows a b -> grows b c -> grows a c.
Proof.
  intros [[L1 P1] N1] [[L2 P2] N2]. split; [split; [lia|]|].
  - intros i Li. rewrite P2 by lia. apply P1. exact Li.
  - intros i key v Li H. destruct (Nat.lt_ge_cases i (List.length b)) as [Lb|Lb].
    + rewrite P2 in H by exact Lb. eapply nf_mono; [eapply N1; eauto|lia].
    + eapply N2; eauto.
Qed.

Lemma grows_len a b : grows a b -> List.length a <= List.length b.
Proof. intros [[L _] _]. exact L. Qed.

(* ---------- _normalize ---------- *)
Section Go.
Variable SV : svariant.
Variable cfg : nconfig.
Variable f : nat.
Variable root : json.
Hypothesis IH : forall s nr res nr', normalize_go SV cfg f root s nr = Ok (res, nr') ->
  grows nr nr' /\ nf (List.length nr') res.

Lemma key_step k d nr d' nr' :
  match dget k d with
  | Some s => do '(s', nr') <- normalize_go SV cfg f root s nr; Ok (dset k s' d, nr')
  | None => Ok (d, nr)
  end = Ok (d', nr') ->
  grows nr nr' /\ (forall key, key <> k -> dget key d' = dget key d) /\
  (forall s, dget k d' = Some s -> nf (List.length nr') s).
Proof.
  intros H. destruct (dget k d) as [s|] eqn:G.
  - destruct (normalize_go SV cfg f root s nr) as [[s' nr1]| | |] eqn:E; cbn [bind] in H; try discriminate.
    inversion H; subst d' nr'. destruct (IH _ _ _ _ E) as [Gr N]. split; auto. split.
    + intros key Nk. apply dget_dset_other. auto.
    + intros s0 G0. rewrite dget_dset_same in G0. inversion G0; subst. exact N.
  - inversion H; subst. split; [apply grows_refl|]. split; auto. intros s G0. rewrite G in G0. discriminate.
Qed.

Lemma props_step d nr d' nr' :
  match dget (kw "properties") d with
  | Some pj =>
    do props <- as_dict pj;
    do '(props', nr') <- foldM (fun '(pacc, nr) '(name, s) =>
                                 do '(s', nr') <- normalize_go SV cfg f root s nr;
                                 Ok (pacc ++ [(name, s')], nr')) props ([], nr);
    Ok (dset (kw "properties") (JObj props') d, nr')
  | None => Ok (d, nr)
  end = Ok (d', nr') ->
  grows nr nr' /\ (forall key, key <> kw "properties" -> dget key d' = dget key d) /\
  (forall pj, dget (kw "properties") d' = Some pj -> exists props, pj = JObj props) /\
  (forall props n s, dget (kw "properties") d' = Some (JObj props) -> In (n, s) props -> nf (List.length nr') s).
Proof.
  intros H. destruct (dget (kw "properties") d) as [pj|] eqn:G.
  - destruct (as_dict pj) as [props| | |]; cbn [bind] in H; try discriminate.
    match type of H with bind ?X _ = _ => destruct X as [[props' nr1]| | |] eqn:E end; cbn [bind] in H; try discriminate.
    inversion H; subst d' nr'.
    assert (J : grows nr nr1 /\ forall n s, In (n, s) props' -> nf (List.length nr1) s).
    { eapply (foldM_inv (fun st : dict * refs => grows nr (snd st) /\ forall n s, In (n, s) (fst st) -> nf (List.length (snd st)) s))
        with (a := (props', nr1)); [| |exact E].
      - cbn [fst snd]. split; [apply grows_refl|intros n s []].
      - intros [pacc nra] [name s] [pacc' nrb] _ [Ga Na] Hst. cbv beta iota in Hst. cbn [fst snd] in *.
        destruct (normalize_go SV cfg f root s nra) as [[s' nr2]| | |] eqn:E2; cbn [bind] in Hst; try discriminate.
        inversion Hst; subst pacc' nrb. destruct (IH _ _ _ _ E2) as [Gr N]. split; [eapply grows_trans; eauto|].
        intros n0 s0 Hin. apply in_app_or in Hin. destruct Hin as [Hin|[Hin|[]]].
        + eapply nf_mono; [eapply Na; eauto|apply grows_len; exact Gr].
        + inversion Hin; subst. exact N. }
    destruct J as [Gr Np]. split; auto. split; [intros key Nk; apply dget_dset_other; auto|]. split.
    + intros pj0 G0. rewrite dget_dset_same in G0. inversion G0; subst. eauto.
    + intros props0 n s G0 Hin. rewrite dget_dset_same in G0. inversion G0; subst. eapply Np; eauto.
  - inversion H; subst. split; [apply grows_refl|]. split; auto.
    split; [intros pj G0|intros props n s G0]; rewrite G in G0; discriminate.
Qed.

Lemma items_step d nr d' nr' :
  match dget (kw "prefixItems") d with
  | Some pj =>
    do items <- as_list pj;
    do '(items', nr') <- foldM (fun '(iacc, nr) s =>
                                 do '(s', nr') <- normalize_go SV cfg f root s nr;
                                 Ok (iacc ++ [s'], nr')) items ([], nr);
    Ok (dset (kw "prefixItems") (JArr items') d, nr')
  | None => Ok (d, nr)
  end = Ok (d', nr') ->
  grows nr nr' /\ (forall key, key <> kw "prefixItems" -> dget key d' = dget key d) /\
  (forall pj, dget (kw "prefixItems") d' = Some pj -> exists items, pj = JArr items) /\
  (forall items s, dget (kw "prefixItems") d' = Some (JArr items) -> In s items -> nf (List.length nr') s).
Proof.
  intros H. destruct (dget (kw "prefixItems") d) as [pj|] eqn:G.
  - destruct (as_list pj) as [items| | |]; cbn [bind] in H; try discriminate.
    match type of H with bind ?X _ = _ => destruct X as [[items' nr1]| | |] eqn:E end; cbn [bind] in H; try discriminate.
    inversion H; subst d' nr'.
    assert (J : grows nr nr1 /\ forall s, In s items' -> nf (List.length nr1) s).
    { eapply (foldM_inv (fun st : list json * refs => grows nr (snd st) /\ forall s, In s (fst st) -> nf (List.length (snd st)) s))
        with (a := (items', nr1)); [| |exact E].
      - cbn [fst snd]. split; [apply grows_refl|intros s []].
      - intros [iacc nra] s [iacc' nrb] _ [Ga Na] Hst. cbv beta iota in Hst. cbn [fst snd] in *.
        destruct (normalize_go SV cfg f root s nra) as [[s' nr2]| | |] eqn:E2; cbn [bind] in Hst; try discriminate.
        inversion Hst; subst iacc' nrb. destruct (IH _ _ _ _ E2) as [Gr N]. split; [eapply grows_trans; eauto|].
        intros s0 Hin. apply in_app_or in Hin. destruct Hin as [Hin|[<-|[]]].
        + eapply nf_mono; [eapply Na; eauto|apply grows_len; exact Gr].
        + exact N. }
    destruct J as [Gr Np]. split; auto. split; [intros key Nk; apply dget_dset_other; auto|]. split.
    + intros pj0 G0. rewrite dget_dset_same in G0. inversion G0; subst. eauto.
    + intros items0 s G0 Hin. rewrite dget_dset_same in G0. inversion G0; subst. eapply Np; eauto.
  - inversion H; subst. split; [apply grows_refl|]. split; auto.
    split; [intros pj G0|intros items s G0]; rewrite G in G0; discriminate.
Qed.
End Go.

Ltac notcomb9 := let X := fresh in intros X; cbv in X; repeat (destruct X as [X|X]; [discriminate X|]); exact X.

Lemma nf_norm_true k : nf k NORM_TRUE.
Proof.
  constructor. intros a [<-|[]]. apply nfalt_kw; try (intros; discriminate). apply clean_nil.
Qed.
Lemma nf_norm_false k : nf k NORM_FALSE.
Proof.
  constructor. intros a [<-|[]]. unfold obj1. apply nfalt_kw.
  - apply cleanb_clean. reflexivity.
  - intros key s Hk G. cbv in Hk. repeat (destruct Hk as [<-|Hk]; [cbv in G; discriminate G|]). contradiction.
  - intros pj G. cbv in G. discriminate.
  - intros props n s G. cbv in G. discriminate.
  - intros pj G. cbv in G. discriminate.
  - intros items s G. cbv in G. discriminate.
Qed.

Theorem normalize_go_nf SV cfg : forall f root s nr res nr',
  normalize_go SV cfg f root s nr = Ok (res, nr') -> grows nr nr' /\ nf (List.length nr') res.
Proof.
  induction f as [|f IH]; intros root s nr res nr' H; cbn [normalize_go] in H; [discriminate|].
  destruct s as [|[]|z|st|l|d]; try discriminate.
  - inversion H; subst. split; [apply grows_refl|apply nf_norm_true].
  - inversion H; subst. split; [apply grows_refl|apply nf_norm_false].
  - destruct d as [|kv0 d0]; [inversion H; subst; split; [apply grows_refl|apply nf_norm_true]|].
    set (schema := JObj (kv0 :: d0)) in *.
    destruct (ref_index schema nr 0) as [i|] eqn:RI.
    { inversion H; subst. split; [apply grows_refl|]. constructor. intros a [<-|[]]. constructor.
      apply ref_index_lt in RI. lia. }
    destruct (inline_refs f root schema) as [[inlined contains0]| | |] eqn:EI; cbn [bind] in H; try discriminate.
    pose proof (inline_refs_RF _ _ _ _ _ EI) as RFi.
    destruct (to_dnf SV cfg f inlined) as [result| | |] eqn:ED; cbn [bind] in H; try discriminate.
    pose proof (to_dnf_dnf SV cfg _ _ _ RFi ED) as Dr.
    cbv zeta in H.
    set (contains := contains0 || detect_dup cfg) in *.
    set (nr1 := if contains then nr ++ [(schema, result)] else nr) in *.
    destruct (any_of result) as [alts| | |] eqn:EA; cbn [bind] in H; try discriminate.
    pose proof (any_of_dnf result alts Dr EA) as Calts.
    match type of H with bind ?X _ = _ => destruct X as [[alts' nr2]| | |] eqn:EF end; cbn [bind] in H; try discriminate.
    (* the loop over the alternatives *)
    assert (J : ext nr1 nr2 /\ (forall i key v, List.length nr1 <= i -> nth_error nr2 i = Some (key, v) -> nf (List.length nr2) v) /\
                forall a, In a alts' -> nfalt (List.length nr2) a).
    { eapply (foldM_inv (fun st : list json * refs => ext nr1 (snd st) /\
                 (forall i key v, List.length nr1 <= i -> nth_error (snd st) i = Some (key, v) -> nf (List.length (snd st)) v) /\
                 forall a, In a (fst st) -> nfalt (List.length (snd st)) a)) with (a := (alts', nr2)); [| |exact EF].
      - cbn [fst snd]. split; [split; auto|]. split; [|intros a []].
        intros i key v L Hn. assert (i < List.length nr1) by (apply nth_error_Some; congruence). lia.
      - intros [acc nra] alt [acc' nrz] Halt (Ea & Na & Aa) Hst. cbv beta iota in Hst. cbn [fst snd] in *.
        destruct (Calts alt Halt) as (d & -> & Cd). cbn [as_dict bind] in Hst.
        cbn [kws map foldM] in Hst.
        match type of Hst with bind (bind ?X _) _ = _ => destruct X as [[da nrA1]| | |] eqn:E1 end; cbn [bind] in Hst; try discriminate; cbv beta iota in Hst.
        destruct (key_step SV cfg f root (IH root) _ _ _ _ _ E1) as (G1 & K1 & S1).
        match type of Hst with bind (bind ?X _) _ = _ => destruct X as [[db nrA2]| | |] eqn:E2 end; cbn [bind] in Hst; try discriminate; cbv beta iota in Hst.
        destruct (key_step SV cfg f root (IH root) _ _ _ _ _ E2) as (G2 & K2 & S2).
        match type of Hst with bind (bind ?X _) _ = _ => destruct X as [[dc nrA3]| | |] eqn:E3 end; cbn [bind] in Hst; try discriminate; cbv beta iota in Hst.
        destruct (key_step SV cfg f root (IH root) _ _ _ _ _ E3) as (G3 & K3 & S3).
        match type of Hst with bind (bind ?X _) _ = _ => destruct X as [[dd nrA4]| | |] eqn:E4 end; cbn [bind] in Hst; try discriminate; cbv beta iota in Hst.
        destruct (key_step SV cfg f root (IH root) _ _ _ _ _ E4) as (G4 & K4 & S4).
        match type of Hst with bind ?X _ = _ => destruct X as [[d2 nrB]| | |] eqn:E5 end; cbn [bind] in Hst; try discriminate.
        destruct (props_step SV cfg f root (IH root) _ _ _ _ E5) as (G5 & K5 & P5 & Q5).
        match type of Hst with bind ?X _ = _ => destruct X as [[d3 nrC]| | |] eqn:E6 end; cbn [bind] in Hst; try discriminate.
        destruct (items_step SV cfg f root (IH root) _ _ _ _ E6) as (G6 & K6 & P6 & Q6).
        inversion Hst; subst acc' nrz. clear Hst.
        assert (Gall : grows nra nrC) by (repeat (eapply grows_trans; [eassumption|]); apply grows_refl).
        assert (L1 : List.length nrA1 <= List.length nrC) by (apply grows_len; repeat (eapply grows_trans; [eassumption|]); apply grows_refl).
        assert (L2 : List.length nrA2 <= List.length nrC) by (apply grows_len; repeat (eapply grows_trans; [eassumption|]); apply grows_refl).
        assert (L3 : List.length nrA3 <= List.length nrC) by (apply grows_len; repeat (eapply grows_trans; [eassumption|]); apply grows_refl).
        assert (L4 : List.length nrA4 <= List.length nrC) by (apply grows_len; repeat (eapply grows_trans; [eassumption|]); apply grows_refl).
        assert (L5 : List.length nrB <= List.length nrC) by (apply grows_len; exact G6).
        destruct Gall as [[Lg Pg] Ng].
        split; [split; [destruct Ea; lia|]|split].
        + intros i Li. destruct Ea as [La Pa]. rewrite Pg by lia. apply Pa. exact Li.
        + intros i key v Li Hn. destruct (Nat.lt_ge_cases i (List.length nra)) as [Lb|Lb].
          * rewrite Pg in Hn by exact Lb. eapply nf_mono; [eapply Na; eauto|lia].
          * eapply Ng; eauto.
        + intros a Ha. apply in_app_or in Ha. destruct Ha as [Ha|[<-|[]]]; [eapply nfalt_mono; [apply Aa; exact Ha|lia]|].
          apply nfalt_kw.
          * (* clean: only keys outside the combinators were set *)
            intros c Hc. rewrite K6, K5, K4, K3, K2, K1 by (intros ->; revert Hc; notcomb9). apply Cd. exact Hc.
          * intros key s Hk G. rewrite K6, K5 in G by (intros ->; cbv in Hk; repeat (destruct Hk as [Hk|Hk]; [discriminate Hk|]); exact Hk).
            cbv in Hk. destruct Hk as [<-|[<-|[<-|[<-|[]]]]].
            -- rewrite K4, K3, K2 in G by (intros X; cbv in X; discriminate X). eapply nf_mono; [apply S1; exact G|exact L1].
            -- rewrite K4, K3 in G by (intros X; cbv in X; discriminate X). eapply nf_mono; [apply S2; exact G|exact L2].
            -- rewrite K4 in G by (intros X; cbv in X; discriminate X). eapply nf_mono; [apply S3; exact G|exact L3].
            -- eapply nf_mono; [apply S4; exact G|exact L4].
          * intros pj G. rewrite K6 in G by (intros X; cbv in X; discriminate X). eapply P5; eauto.
          * intros props n s G Hin. rewrite K6 in G by (intros X; cbv in X; discriminate X).
            eapply nf_mono; [eapply Q5; eauto|exact L5].
          * exact P6.
          * exact Q6. }
    destruct J as (E2 & N2 & A2).
    assert (Fin : nf (List.length nr2) (obj1 "anyOf" (JArr alts'))) by (constructor; exact A2).
    destruct contains eqn:EC.
    + (* the schema was registered: its slot now receives the final form *)
      inversion H; subst res nr'. clear H.
      assert (Lnr1 : List.length nr1 = S (List.length nr)) by (unfold nr1; rewrite app_length; cbn; lia).
      destruct E2 as [L2 P2].
      assert (Slot : nth_error nr2 (List.length nr) = Some (schema, result)).
      { rewrite P2 by lia. unfold nr1. rewrite nth_error_app2 by lia. rewrite Nat.sub_diag. reflexivity. }
      unfold grows, ext, new_nf. rewrite !ref_set_length. split; [split; [split; [lia|]|]|].
      * intros i Li. rewrite ref_set_other by lia. rewrite P2 by lia. unfold nr1. apply nth_error_app1. exact Li.
      * intros i key v Li Hn. destruct (Nat.eq_dec i (List.length nr)) as [->|Ne].
        -- rewrite (ref_set_same _ _ _ _ _ Slot) in Hn. inversion Hn; subst. exact Fin.
        -- rewrite ref_set_other in Hn by exact Ne. eapply N2; [|exact Hn]. lia.
      * constructor. intros a [<-|[]]. constructor. lia.
    + inversion H; subst res nr'. clear H. unfold nr1 in *. split; [split; [exact E2|]|exact Fin].
      intros i key v Li Hn. eapply N2; eauto.
Qed.

(* ---------- normalize() ---------- *)
Definition nf_doc (j : json) : Prop :=
  exists k alts defs d,
    j = JObj d /\ dget (kw "anyOf") d = Some (JArr alts) /\ (forall a, In a alts -> nfalt k a) /\
    dget (kw "$defs") d = Some (JObj defs) /\ List.length defs = k /\
    (forall i name v, nth_error defs i = Some (name, v) -> name = nat_digits 20 i [] /\ nf k v).

Lemma nth_error_enum_from {A} (l : list A) : forall k i, nth_error (enum_from k l) i = option_map (fun x => (k + i, x)) (nth_error l i).
Proof.
  induction l as [|x l IH]; intros k i; cbn [enum_from]; [destruct i; reflexivity|].
  destruct i; cbn [nth_error option_map]; [f_equal; f_equal; lia|]. rewrite IH. destruct (nth_error l i); cbn; [f_equal; f_equal; lia|reflexivity].
Qed.

Theorem normalize_nf SV cfg fuel schema j :
  normalize SV cfg fuel schema = Ok j -> j = NORM_TRUE \/ j = NORM_FALSE \/ nf_doc j.
Proof.
  intros H. unfold normalize in H. destruct schema as [|[]|z|st|l|d]; try discriminate.
  - inversion H; auto.
  - inversion H; auto.
  - right. right.
    match type of H with bind ?X _ = _ => destruct X as [[n nr]| | |] eqn:E end; cbn [bind] in H; try discriminate.
    destruct (normalize_go_nf SV cfg _ _ _ _ _ _ E) as [[_ Nn] Nf].
    inversion Nf as [alts Ha Ej]. subst n. cbn [as_dict obj1 bind] in H.
    set (nd := [(kw "anyOf", JArr alts)]) in *.
    set (nd1 := match dget (kw "$schema") d with Some s => dset (kw "$schema") s nd | None => nd end) in *.
    set (defs := map (fun '(i, (_, v)) => (nat_digits 20 i [], v)) (enumerate nr)) in *.
    inversion H; subst j. clear H.
    exists (List.length nr), alts, defs, (dset (kw "$defs") (JObj defs) nd1).
    split; [reflexivity|]. split; [|split; [exact Ha|split; [apply dget_dset_same|split]]].
    + rewrite dget_dset_other by (intros X; cbv in X; discriminate X).
      unfold nd1. destruct (dget (kw "$schema") d); [rewrite dget_dset_other by (intros X; cbv in X; discriminate X)|]; reflexivity.
    + unfold defs, enumerate. rewrite map_length.
      assert (G : forall (rr : refs) k0, List.length (enum_from k0 rr) = List.length rr) by (induction rr; intros; cbn; auto).
      apply G.
    + intros i name v Hn. unfold defs, enumerate in Hn. rewrite nth_error_map, nth_error_enum_from in Hn.
      destruct (nth_error nr i) as [[key v0]|] eqn:En; cbn [option_map] in Hn; [|discriminate].
      cbn [Nat.add] in Hn. split; [congruence|]. assert (EV : v0 = v) by congruence. subst v0.
      eapply Nn; [|exact En]. cbn [List.length]. lia.
Qed.

(* GraphRun.v -- the reference semantics of C04 as a big-step relation, and the proof that the
   fuel-indexed interpreter [exec] (the model of Node._execute) computes exactly it. *)
From Fences Require Import GraphSpec GraphExec.

(* [Run g n p tr r]: running node n on path p applies the nodes tr (in order) and leaves r.
   A leaf consumes nothing; a choose-one decision consumes one index and takes that branch;
   a do-all decision consumes nothing itself and runs all its branches in order. *)
Inductive Run (g : graph) : nat -> list nat -> list nat -> list nat -> Prop :=
| Run_leaf n v p : kind_of g n = KLeaf v -> Run g n p [n] p
| Run_one n noop i t p tr r :
    kind_of g n = KDec false noop -> nth_error (outs_of g n) i = Some t ->
    Run g t p tr r -> Run g n (i :: p) (n :: tr) r
| Run_all n noop p trs r :
    kind_of g n = KDec true noop -> RunAll g (outs_of g n) p trs r -> Run g n p (n :: trs) r
with RunAll (g : graph) : list nat -> list nat -> list nat -> list nat -> Prop :=
| RunAll_nil p : RunAll g [] p [] p
| RunAll_cons t ts p tr p' trs r :
    Run g t p tr p' -> RunAll g ts p' trs r -> RunAll g (t :: ts) p (tr ++ trs) r.

Scheme Run_mind := Induction for Run Sort Prop
  with RunAll_mind := Induction for RunAll Sort Prop.

Lemma exec_fold_RunAll g f
  (IH : forall n p tr r, exec f g n p = Ok (tr, r) -> Run g n p tr r) :
  forall l tr0 p tr r,
    foldM (exec_step g f) l (tr0, p) = Ok (tr, r) ->
    exists trs, tr = tr0 ++ trs /\ RunAll g l p trs r.
Proof.
  induction l as [|t l IHl]; intros tr0 p tr r H; simpl in H.
  - inversion H; subst. exists []. rewrite app_nil_r. split; auto. constructor.
  - destruct (exec f g t p) as [[tr1 p1]| | |] eqn:E; simpl in H; try discriminate.
    apply IHl in H. destruct H as (trs & -> & R). exists (tr1 ++ trs).
    rewrite app_assoc. split; auto. econstructor; eauto.
Qed.

Theorem exec_Run g : forall f n p tr r, exec f g n p = Ok (tr, r) -> Run g n p tr r.
Proof.
  induction f as [|f IH]; intros n p tr r H; simpl in H; [discriminate|].
  destruct (kind_of g n) as [v|[] noop|name] eqn:K; try discriminate.
  - inversion H; subst. econstructor; eauto.
  - fold (exec_step g f) in H. apply (exec_fold_RunAll g f IH) in H.
    destruct H as (trs & -> & R). simpl. econstructor; eauto.
  - destruct p as [|i p]; [discriminate|].
    destruct (nth_error (outs_of g n) i) as [t|] eqn:N; [|discriminate].
    destruct (exec f g t p) as [[tr1 r1]| | |] eqn:E; simpl in H; try discriminate.
    inversion H; subst. econstructor; eauto.
Qed.

Lemma exec_fuel_mono g : forall f n p tr r, exec f g n p = Ok (tr, r) ->
  forall f', f <= f' -> exec f' g n p = Ok (tr, r).
Proof.
  induction f as [|f IH]; intros n p tr r H f' L; simpl in H; [discriminate|].
  destruct f' as [|f']; [lia|]. assert (L' : f <= f') by lia. simpl.
  destruct (kind_of g n) as [v|[] noop|name] eqn:K; try discriminate; auto.
  - revert H. generalize ([n]) as tr0. revert p. generalize (outs_of g n) as l.
    induction l as [|t l IHl]; intros p tr0 H; simpl in *; auto.
    destruct (exec f g t p) as [[tr1 p1]| | |] eqn:E; simpl in H; try discriminate.
    rewrite (IH _ _ _ _ E f' L'). simpl. apply IHl. exact H.
  - destruct p as [|i p]; [discriminate|].
    destruct (nth_error (outs_of g n) i) as [t|] eqn:N; [|discriminate].
    destruct (exec f g t p) as [[tr1 r1]| | |] eqn:E; simpl in H; try discriminate.
    rewrite (IH _ _ _ _ E f' L'). simpl. exact H.
Qed.

Theorem Run_exec g : forall n p tr r, Run g n p tr r -> exists f, exec f g n p = Ok (tr, r).
Proof.
  apply (Run_mind g
    (fun n p tr r _ => exists f, exec f g n p = Ok (tr, r))
    (fun l p trs r _ => exists f, forall tr0, foldM (exec_step g f) l (tr0, p) = Ok (tr0 ++ trs, r))).
  - intros n v p K. exists 1. simpl. rewrite K. reflexivity.
  - intros n noop i t p tr r K N _ [f E]. exists (S f). simpl. rewrite K, N, E. reflexivity.
  - intros n noop p trs r K _ [f E]. exists (S f). simpl. rewrite K. fold (exec_step g f).
    rewrite E. reflexivity.
  - intros p. exists 0. intros tr0. simpl. rewrite app_nil_r. reflexivity.
  - intros t ts p tr p' trs r _ [f1 E1] _ [f2 E2]. exists (Nat.max f1 f2). intros tr0. simpl.
    rewrite (exec_fuel_mono g _ _ _ _ _ E1 (Nat.max f1 f2)) by lia. simpl.
    assert (M : forall tr1, foldM (exec_step g (Nat.max f1 f2)) ts (tr1, p') = Ok (tr1 ++ trs, r)).
    { clear E1. intros tr1. specialize (E2 tr1). revert E2. generalize (tr1 ++ trs) as res.
      revert tr1. generalize p' as q. induction ts as [|x xs IHx]; intros q tr1 res H; simpl in *; auto.
      destruct (exec f2 g x q) as [[trx qx]| | |] eqn:Ex; simpl in H; try discriminate.
      rewrite (exec_fuel_mono g _ _ _ _ _ Ex (Nat.max f1 f2)) by lia. simpl. apply IHx. exact H. }
    rewrite M. rewrite app_assoc. reflexivity.
Qed.

(* ---------- values and data flow (execv) ---------- *)
(* the node whose apply() result the interpreter returns: the last node run if it is a leaf,
   Python's None otherwise (a do-all decision without branches ran last) *)
Definition ret_of (g : graph) (tr : list nat) : option nat :=
  match rev tr with
  | n :: _ => if is_leaf g n then Some n else None
  | [] => None
  end.

Lemma ret_of_app g a b : b <> [] -> ret_of g (a ++ b) = ret_of g b.
Proof.
  intros H. unfold ret_of. rewrite rev_app_distr.
  destruct (rev b) as [|x r] eqn:E; [|reflexivity].
  apply (f_equal (@rev nat)) in E. rewrite rev_involutive in E. simpl in E. congruence.
Qed.

Definition flow_ok (g : graph) (tr : list (nat * option nat)) : Prop :=
  forall x q, In (x, Some q) tr -> is_dec g q = true /\ In x (outs_of g q).

Theorem execv_spec g : forall f from n p tr r v,
  execv f g from n p = Ok (tr, r, v) ->
  exec f g n p = Ok (map fst tr, r) /\
  v = ret_of g (map fst tr) /\
  (exists tl, tr = (n, from) :: tl /\ flow_ok g tl).
Proof.
  induction f as [|f IH]; intros from n p tr r v H; simpl in H; [discriminate|]. simpl.
  destruct (kind_of g n) as [b|[] noop|name] eqn:K; try discriminate.
  - inversion H; subst. simpl. split; auto. split.
    + unfold ret_of, is_leaf. simpl. rewrite K. reflexivity.
    + exists []. split; auto. intros x q [].
  - (* do-all *)
    assert (D : is_dec g n = true) by (unfold is_dec; rewrite K; reflexivity).
    assert (G : forall l tr0 p0 v0 tr1 r1 v1,
               (forall t, In t l -> In t (outs_of g n)) ->
               foldM (fun '(tr, p, _) t => do '(tr', p', v') <- execv f g (Some n) t p; Ok (tr ++ tr', p', v'))
                     l (tr0, p0, v0) = Ok (tr1, r1, v1) ->
               exists tl, tr1 = tr0 ++ tl /\
                 foldM (exec_step g f) l (map fst tr0, p0) = Ok (map fst tr0 ++ map fst tl, r1) /\
                 (l = [] -> v1 = v0 /\ tl = []) /\ (l <> [] -> tl <> [] /\ v1 = ret_of g (map fst tl)) /\
                 flow_ok g tl).
    { induction l as [|t l IHl]; intros tr0 p0 v0 tr1 r1 v1 Sub F; simpl in F.
      - inversion F; subst. exists []. rewrite !app_nil_r. split; auto. split; auto. split; [auto|]. split; [congruence|]. intros x q [].
      - destruct (execv f g (Some n) t p0) as [[[tr' p'] v']| | |] eqn:E; simpl in F; try discriminate.
        destruct (IH _ _ _ _ _ _ E) as (X & Rv & tl' & Etr & Fl).
        apply IHl in F; [|intros; apply Sub; right; auto].
        destruct F as (tl & -> & X2 & N1 & N2 & Fl2).
        exists (tr' ++ tl). rewrite <- app_assoc. split; auto. simpl. rewrite X. simpl.
        rewrite map_app in X2. rewrite X2. rewrite !map_app, <- app_assoc.
        split; auto. split; [discriminate|]. split.
        + intros _. split; [subst tr'; destruct tl'; discriminate|].
          destruct l as [|t2 l2].
          * destruct (N1 eq_refl) as [-> ->]. simpl. rewrite app_nil_r. exact Rv.
          * destruct (N2 ltac:(discriminate)) as [Ne ->].
            rewrite ret_of_app; auto. destruct tl; [congruence|discriminate].
        + intros x q Hin. apply in_app_or in Hin. destruct Hin as [Hin|Hin]; [|apply Fl2; exact Hin].
          subst tr'. destruct Hin as [Hin|Hin]; [|apply Fl; exact Hin].
          inversion Hin; subst. split; auto. apply Sub. left. reflexivity. }
    destruct (G _ _ _ _ _ _ _ (fun t Ht => Ht) H) as (tl & -> & X & N1 & N2 & Fl).
    split; [exact X|]. simpl. split.
    + destruct (outs_of g n) as [|o os] eqn:O.
      * destruct (N1 eq_refl) as [-> ->]. unfold ret_of, is_leaf. simpl. rewrite K. reflexivity.
      * destruct (N2 ltac:(discriminate)) as [Ne ->].
        change (n :: map fst tl) with ([n] ++ map fst tl). rewrite ret_of_app; auto.
        destruct tl; [congruence|discriminate].
    + exists tl. split; auto.
  - (* choose-one *)
    destruct p as [|i p']; [discriminate|].
    destruct (nth_error (outs_of g n) i) as [t|] eqn:N; [|discriminate].
    destruct (execv f g (Some n) t p') as [[[tr' r'] v']| | |] eqn:E; simpl in H; try discriminate.
    inversion H; subst. destruct (IH _ _ _ _ _ _ E) as (X & Rv & tl' & Etr & Fl).
    rewrite X. simpl. split; auto. split.
    + change (n :: map fst tr') with ([n] ++ map fst tr'). rewrite ret_of_app; auto.
      subst tr'. discriminate.
    + exists tr'. split; auto. subst tr'. intros x q [Hin|Hin]; [|apply Fl; exact Hin].
      inversion Hin; subst. split; [unfold is_dec; rewrite K; reflexivity|]. eapply nth_error_In; eauto.
Qed.

(* XmlLinks.v -- the table the XSD handlers build is consistently linked; hence, after resolve(), optimize() and the
   start / output nodes, every node reachable from the root of the graph parse_xsd returns is linked on both ends and
   is not a Reference (C14 for the XSD front end). *)
From Coq Require Import String Ascii ZArith Lia.
From Fences Require Import Xml GraphSpec GraphLinks GraphOps GraphResolve GraphOpt GraphOptLinks RegexLinks.
Local Open Scope list_scope.

Definition xlen (st : xbst) : nat := length (x_graph st).
Definition gi (st : xbst) : Prop := consistent (x_graph st) /\ outs_dec (x_graph st).
Definition xext (st st' : xbst) : Prop :=
  xlen st <= xlen st' /\ forall m, m < xlen st -> kind_of (x_graph st') m = kind_of (x_graph st) m.
Definition xgood (st st' : xbst) (n : nat) : Prop := gi st' /\ xext st st' /\ n < xlen st'.

Lemma xext_refl st : xext st st. Proof. split; auto. Qed.
Lemma xext_trans a b c : xext a b -> xext b c -> xext a c.
Proof. intros [L1 K1] [L2 K2]. split; [lia|]. intros m Hm. rewrite K2 by lia. apply K1. exact Hm. Qed.
Lemma xext_dec st st' n : xext st st' -> n < xlen st -> is_dec (x_graph st) n = true -> is_dec (x_graph st') n = true.
Proof. intros [_ K] L D. unfold is_dec in *. rewrite (K n L). exact D. Qed.

Lemma gi_new k id p st : gi st ->
  let st' := fst (xnew k id p st) in
  gi st' /\ xext st st' /\ xlen st' = S (xlen st) /\ kind_of (x_graph st') (xlen st) = k /\ snd (xnew k id p st) = xlen st.
Proof.
  intros [C O]. cbn [xnew fst snd]. unfold gi, xext, xlen. cbn [x_graph].
  split; [split; [apply new_node_consistent; exact C|exact (apply_op_outs_dec _ (NewNode k id) O)]|].
  split; [split; [rewrite app_length; cbn; lia|]|split; [rewrite app_length; cbn; lia|split; [|reflexivity]]].
  - intros m Hm. unfold kind_of, getn. rewrite app_nth1 by exact Hm. reflexivity.
  - unfold kind_of, getn. rewrite app_nth2 by lia. rewrite Nat.sub_diag. reflexivity.
Qed.

Lemma gi_add s t st : gi st -> is_dec (x_graph st) s = true -> t < xlen st ->
  gi (xadd s t st) /\ xext st (xadd s t st) /\ xlen (xadd s t st) = xlen st.
Proof.
  intros [C O] D L. unfold gi, xext, xlen, xadd in *. cbn [x_graph].
  destruct (add_transition_spec (x_graph st) s t (is_dec_lt _ _ D) L) as (K & _ & _ & Ln).
  split; [split; [apply add_transition_consistent; auto|]|split; [split; [lia|intros m _; apply K]|exact Ln]].
  pose proof (apply_op_outs_dec _ (AddT s t) O) as X. cbn [apply_op] in X. rewrite D in X.
  destruct (Nat.ltb_spec t (length (x_graph st))); [exact X|lia].
Qed.

Lemma gi_add_times : forall k s t st, gi st -> is_dec (x_graph st) s = true -> t < xlen st ->
  gi (xadd_times k s t st) /\ xext st (xadd_times k s t st) /\ xlen (xadd_times k s t st) = xlen st.
Proof.
  induction k as [|k IH]; intros s t st G D L; cbn [xadd_times]; [split; [exact G|split; [apply xext_refl|reflexivity]]|].
  destruct (gi_add s t st G D L) as (G1 & E1 & L1).
  destruct (IH s t (xadd s t st) G1) as (G2 & E2 & L2).
  - apply (xext_dec st); auto. exact (is_dec_lt _ _ D).
  - lia.
  - split; [exact G2|]. split; [eapply xext_trans; eauto|lia].
Qed.

(* a decision just created, then children created and attached one by one *)
Lemma fold_leaves {A} (mk : A -> xbst -> xbst * nat) root : forall (l : list A) st,
  (forall a st0, gi st0 -> let st1 := fst (mk a st0) in gi st1 /\ xext st0 st1 /\ snd (mk a st0) < xlen st1) ->
  gi st -> root < xlen st -> is_dec (x_graph st) root = true ->
  let st' := fold_left (fun st a => let '(st, l) := mk a st in xadd root l st) l st in
  gi st' /\ xext st st'.
Proof.
  induction l as [|a l IH]; intros st HM G Lr D; cbn [fold_left]; [split; [exact G|apply xext_refl]|].
  destruct (mk a st) as [st1 n] eqn:E. pose proof (HM a st G) as X. rewrite E in X. cbn [fst snd] in X. destruct X as (G1 & E1 & L1).
  assert (D1 : is_dec (x_graph st1) root = true) by (apply (xext_dec st); auto).
  destruct (gi_add root n st1 G1 D1 L1) as (G2 & E2 & L2).
  destruct (IH (xadd root n st1) HM G2) as [G3 E3].
  - destruct E1. lia.
  - apply (xext_dec st1); auto. destruct E1; lia.
  - split; [exact G3|]. eapply xext_trans; [exact E1|eapply xext_trans; eauto].
Qed.

Lemma fold_left_ext {A B} (f h : A -> B -> A) : (forall a b, f a b = h a b) -> forall l a0, fold_left f l a0 = fold_left h l a0.
Proof. intros E l. induction l as [|x l IH]; intros a0; cbn [fold_left]; [reflexivity|]. rewrite E. apply IH. Qed.

Lemma draw_graph st : x_graph (snd (draw st)) = x_graph st.
Proof. unfold draw. destruct (x_draws st); reflexivity. Qed.

Lemma gi_same_graph st st' : x_graph st' = x_graph st -> gi st -> gi st' /\ xext st st' /\ xlen st' = xlen st.
Proof. intros E G. unfold gi, xext, xlen in *. rewrite E. split; [exact G|]. split; [split; auto|reflexivity]. Qed.

Lemma xset_good valid id v st : gi st ->
  let st1 := fst (xset valid id v st) in gi st1 /\ xext st st1 /\ snd (xset valid id v st) < xlen st1.
Proof.
  intros G. unfold xset. destruct (gi_new (KLeaf valid) id (XPSet v) st G) as (G1 & E1 & L1 & _ & S1).
  cbv zeta in *. split; [exact G1|]. split; [exact E1|]. rewrite S1. lia.
Qed.

Lemma resolve_type_good t st : gi st -> let r := resolve_type t st in xgood st (fst r) (snd r).
Proof.
  intros G. unfold resolve_type. destruct (find_type t type_table) as [[valid invalid]|].
  - unfold xnoop. destruct (gi_new (KDec false true) None XPNone st G) as (G1 & E1 & L1 & K1 & S1). cbv zeta in *.
    destruct (xnew (KDec false true) None XPNone st) as [st1 root] eqn:EN. cbn [fst snd] in *. subst root.
    assert (D1 : is_dec (x_graph st1) (xlen st) = true) by (unfold is_dec; rewrite K1; reflexivity).
    set (mk1 := fun (g : Xml.gen) (s : xbst) =>
                  xset true None (match g with GConst c => kw c | GRand => z_str (fst (draw s)) end)
                                 (match g with GConst _ => s | GRand => snd (draw s) end)).
    rewrite (fold_left_ext _ (fun s g => let '(s', l) := mk1 g s in xadd (xlen st) l s')).
    2:{ intros s g. unfold mk1. destruct g; [reflexivity|]. destruct (draw s). reflexivity. }
    destruct (fold_leaves mk1 (xlen st) valid st1) as [G2 E2]; auto; [|lia|].
    { intros g s Gs. unfold mk1. destruct g as [c|].
      - apply xset_good. exact Gs.
      - destruct (gi_same_graph s (snd (draw s)) (draw_graph s) Gs) as (Ga & Ea & La).
        destruct (xset_good true None (z_str (fst (draw s))) (snd (draw s)) Ga) as (Gb & Eb & Lb).
        split; [exact Gb|]. split; [eapply xext_trans; eauto|exact Lb]. }
    set (st2 := fold_left (fun s g => let '(s', l) := mk1 g s in xadd (xlen st) l s') valid st1) in *.
    destruct (fold_leaves (fun (s : string) (x : xbst) => xset false None (kw s) x) (xlen st) invalid st2) as [G3 E3]; auto.
    { intros a s Gs. apply xset_good. exact Gs. }
    { destruct E2. lia. }
    { apply (xext_dec st1); auto. lia. }
    cbn [fst snd]. split; [exact G3|]. split; [eapply xext_trans; [exact E1|eapply xext_trans; eauto]|destruct E2, E3; lia].
  - destruct (gi_new (KRef t) None XPNone st G) as (G1 & E1 & L1 & _ & S1). cbv zeta in *.
    split; [exact G1|]. split; [exact E1|]. rewrite S1. lia.
Qed.

Lemma repeat_node_good child mn mx st st' n : gi st -> child < xlen st -> repeat_node child mn mx st = Ok (st', n) -> xgood st st' n.
Proof.
  intros G Lc H. unfold repeat_node, xnoop, xnoop_leaf in H.
  destruct (gi_new (KDec false true) None XPNone st G) as (G1 & E1 & L1 & K1 & S1). cbv zeta in *.
  destruct (xnew (KDec false true) None XPNone st) as [st1 root] eqn:EN1. cbn [fst snd] in *. subst root.
  assert (D1 : is_dec (x_graph st1) (xlen st) = true) by (unfold is_dec; rewrite K1; reflexivity).
  destruct (gi_new (KLeaf (mn =? 0)) None XPNone st1 G1) as (G2 & E2 & L2 & K2 & S2). cbv zeta in *.
  destruct (xnew (KLeaf (mn =? 0)) None XPNone st1) as [st2 l] eqn:EN2. cbn [fst snd] in *. subst l.
  destruct (gi_add (xlen st) (xlen st1) st2 G2) as (G3 & E3 & L3); [apply (xext_dec st1); auto; lia|lia|].
  set (st3 := xadd (xlen st) (xlen st1) st2) in *.
  set (mx' := match mx with None => mn + 1 | Some m => m end) in *.
  destruct (mx' <? mn); [discriminate|].
  assert (E03 : xext st st3) by (eapply xext_trans; [exact E1|eapply xext_trans; eauto]).
  assert (D3 : is_dec (x_graph st3) (xlen st) = true) by (apply (xext_dec st1); [eapply xext_trans; eauto|lia|exact D1]).
  (* one branch: a do-all decision with k copies of the child, possibly followed by an invalid leaf *)
  assert (Branch : forall k (extra : bool) s, gi s -> xext st3 s ->
            let s' := let '(s1, sub) := xnew (KDec true true) None XPNone s in
                      let s2 := xadd_times k sub child s1 in
                      if extra then let '(s3, l) := xnew (KLeaf false) None XPNone s2 in xadd (xlen st) sub (xadd sub l s3)
                      else xadd (xlen st) sub s2 in
            gi s' /\ xext s s').
  { intros k extra s Gs Es.
    destruct (gi_new (KDec true true) None XPNone s Gs) as (Ga & Ea & La & Ka & Sa). cbv zeta in *.
    destruct (xnew (KDec true true) None XPNone s) as [s1 sub] eqn:ENa. cbn [fst snd] in *. subst sub.
    assert (Da : is_dec (x_graph s1) (xlen s) = true) by (unfold is_dec; rewrite Ka; reflexivity).
    assert (Lcs : child < xlen s1) by (destruct E03, Es; lia).
    destruct (gi_add_times k (xlen s) child s1 Ga Da Lcs) as (Gb & Eb & Lb).
    set (s2 := xadd_times k (xlen s) child s1) in *.
    assert (Droot : forall s4, xext s1 s4 -> is_dec (x_graph s4) (xlen st) = true).
    { intros s4 E4. apply (xext_dec st3); [eapply xext_trans; [exact Es|eapply xext_trans; eauto]|destruct E03; lia|exact D3]. }
    destruct extra.
    - destruct (gi_new (KLeaf false) None XPNone s2 Gb) as (Gc & Ec & Lc' & Kc & Sc). cbv zeta in *.
      destruct (xnew (KLeaf false) None XPNone s2) as [s3 l] eqn:ENc. cbn [fst snd] in *. subst l.
      destruct (gi_add (xlen s) (xlen s2) s3 Gc) as (Gd & Ed & Ld); [apply (xext_dec s1); [eapply xext_trans; eauto|lia|exact Da]|lia|].
      destruct (gi_add (xlen st) (xlen s) (xadd (xlen s) (xlen s2) s3) Gd) as (Ge & Ee & Le);
        [apply Droot; eapply xext_trans; [exact Eb|eapply xext_trans; eauto]|lia|].
      split; [exact Ge|]. eapply xext_trans; [exact Ea|]. eapply xext_trans; [exact Eb|]. eapply xext_trans; [exact Ec|]. eapply xext_trans; eauto.
    - destruct (gi_add (xlen st) (xlen s) s2 Gb) as (Gc & Ec & Lc'); [apply Droot; exact Eb|lia|].
      split; [exact Gc|]. eapply xext_trans; [exact Ea|]. eapply xext_trans; eauto. }
  assert (X : st' = (let sa := if 0 <? mn then let '(s0, sub) := xnew (KDec true true) None XPNone st3 in xadd (xlen st) sub (xadd_times mn sub child s0) else st3 in
                       let sb := if 1 <? mn then let '(s0, sub) := xnew (KDec true true) None XPNone sa in
                                                   let s1 := xadd_times (mn - 1) sub child s0 in
                                                   let '(s2, l) := xnew (KLeaf false) None XPNone s1 in
                                                   xadd (xlen st) sub (xadd sub l s2) else sa in
                       if mx' =? mn then sb else let '(s0, sub) := xnew (KDec true true) None XPNone sb in xadd (xlen st) sub (xadd_times mx' sub child s0))
                 /\ n = xlen st) by (inversion H; split; reflexivity).
  destruct X as [-> ->]. cbv zeta.
  set (s4 := if 0 <? mn then let '(s0, sub) := xnew (KDec true true) None XPNone st3 in xadd (xlen st) sub (xadd_times mn sub child s0) else st3).
  assert (S4 : gi s4 /\ xext st3 s4).
  { unfold s4. destruct (0 <? mn); [|split; [exact G3|apply xext_refl]]. exact (Branch mn false st3 G3 (xext_refl _)). }
  destruct S4 as [G4 E4].
  set (s5 := if 1 <? mn then let '(s0, sub) := xnew (KDec true true) None XPNone s4 in
                              let s1 := xadd_times (mn - 1) sub child s0 in
                              let '(s2, l) := xnew (KLeaf false) None XPNone s1 in xadd (xlen st) sub (xadd sub l s2) else s4).
  assert (S5 : gi s5 /\ xext s4 s5).
  { unfold s5. destruct (1 <? mn); [|split; [exact G4|apply xext_refl]]. exact (Branch (mn - 1) true s4 G4 E4). }
  destruct S5 as [G5 E5].
  assert (E35 : xext st3 s5) by (eapply xext_trans; eauto).
  assert (S6 : gi (if mx' =? mn then s5 else let '(s0, sub) := xnew (KDec true true) None XPNone s5 in xadd (xlen st) sub (xadd_times mx' sub child s0)) /\
               xext s5 (if mx' =? mn then s5 else let '(s0, sub) := xnew (KDec true true) None XPNone s5 in xadd (xlen st) sub (xadd_times mx' sub child s0))).
  { destruct (mx' =? mn); [split; [exact G5|apply xext_refl]|]. exact (Branch mx' false s5 G5 E35). }
  destruct S6 as [G6 E6].
  split; [exact G6|]. split; [eapply xext_trans; [exact E03|eapply xext_trans; [exact E35|exact E6]]|].
  destruct E03, E35, E6. lia.
Qed.

(* ---------- the handlers ---------- *)
Section Handlers.
Variable rec : xml -> xpath -> xbst -> res (xbst * nat).

Definition rec_good (e : xml) : Prop :=
  forall c sp st st' n, In c (kids_of e) -> gi st -> rec c sp st = Ok (st', n) -> xgood st st' n.

Lemma in_enum_kids p : forall l seen sp c, In (sp, c) (enum_kids p seen l) -> In c l.
Proof.
  induction l as [|c0 l IH]; intros seen sp c H; cbn [enum_kids] in H; [destruct H|].
  destruct H as [E|H]; [inversion E; subst; left; reflexivity|right; eapply IH; eauto].
Qed.

Lemma attach_good root e p st st' : rec_good e -> gi st -> root < xlen st -> is_dec (x_graph st) root = true ->
  attach_children rec root e p st = Ok st' -> gi st' /\ xext st st'.
Proof.
  intros HR. unfold attach_children.
  assert (Gen : forall l s s', (forall sp c, In (sp, c) l -> In c (kids_of e)) -> gi s -> root < xlen s -> is_dec (x_graph s) root = true ->
            foldM (fun st '(sp, c) => do '(st, n) <- rec c sp st; Ok (xadd root n st)) l s = Ok s' -> gi s' /\ xext s s').
  { induction l as [|[sp c] l IH]; intros s s' Hin G Lr D H; cbn [foldM] in H.
    - inversion H; subst. split; [exact G|apply xext_refl].
    - destruct (rec c sp s) as [[s1 n]| | |] eqn:E; cbn [bind] in H; try discriminate.
      destruct (HR c sp s s1 n (Hin sp c (or_introl eq_refl)) G E) as (G1 & E1 & L1).
      assert (D1 : is_dec (x_graph s1) root = true) by (apply (xext_dec s); auto).
      destruct (gi_add root n s1 G1 D1 L1) as (G2 & E2 & L2).
      destruct (IH (xadd root n s1) s' (fun sp0 c0 H0 => Hin sp0 c0 (or_intror H0)) G2) as [G3 E3]; auto.
      + destruct E1. lia.
      + apply (xext_dec s1); auto. destruct E1; lia.
      + split; [exact G3|]. eapply xext_trans; [exact E1|eapply xext_trans; eauto]. }
  intros G Lr D H. eapply Gen; eauto. intros sp c Hin. eapply in_enum_kids; eauto.
Qed.

(* a fresh decision, the children attached, possibly a closing leaf *)
Lemma container_good (all : bool) id (fill : bool) e p st st' root :
  rec_good e -> gi st ->
  (let '(st1, r) := xnoop all id st in
   do st2 <- attach_children rec r e p st1;
   Ok (if fill then match outs_of (x_graph st2) r with
                    | [] => let '(st3, l) := xnoop_leaf true None st2 in xadd r l st3
                    | _ => st2 end else st2, r)) = Ok (st', root) ->
  xgood st st' root.
Proof.
  intros HR G H. unfold xnoop in H.
  destruct (gi_new (KDec all true) id XPNone st G) as (G1 & E1 & L1 & K1 & S1). cbv zeta in *.
  destruct (xnew (KDec all true) id XPNone st) as [st1 r] eqn:EN. cbn [fst snd] in *. subst r.
  assert (D1 : is_dec (x_graph st1) (xlen st) = true) by (unfold is_dec; rewrite K1; reflexivity).
  destruct (attach_children rec (xlen st) e p st1) as [st2| | |] eqn:EA; cbn [bind] in H; try discriminate.
  destruct (attach_good (xlen st) e p st1 st2 HR G1 ltac:(lia) D1 EA) as [G2 E2].
  assert (X : st' = (if fill then match outs_of (x_graph st2) (xlen st) with
                                   | [] => let '(st3, l) := xnoop_leaf true None st2 in xadd (xlen st) l st3
                                   | _ => st2 end else st2) /\ root = xlen st) by (inversion H; split; reflexivity).
  destruct X as [-> ->].
  assert (Plain : xgood st st2 (xlen st)) by (split; [exact G2|split; [eapply xext_trans; eauto|destruct E2; lia]]).
  destruct fill; [|exact Plain]. destruct (outs_of (x_graph st2) (xlen st)); [|exact Plain].
  unfold xnoop_leaf. destruct (gi_new (KLeaf true) None XPNone st2 G2) as (G3 & E3 & L3 & K3 & S3). cbv zeta in *.
  destruct (xnew (KLeaf true) None XPNone st2) as [st3 l] eqn:EN3. cbn [fst snd] in *. subst l.
  destruct (gi_add (xlen st) (xlen st2) st3 G3) as (G4 & E4 & L4);
    [apply (xext_dec st1); [eapply xext_trans; eauto|lia|exact D1]|lia|].
  split; [exact G4|]. split; [eapply xext_trans; [exact E1|eapply xext_trans; [exact E2|eapply xext_trans; eauto]]|destruct E2; lia].
Qed.
End Handlers.

Definition hgood (st : xbst) (r : res (xbst * nat * list str)) : Prop :=
  match r with Ok (st', n, _) => xgood st st' n | _ => True end.

Section Handlers2.
Variable rec : xml -> xpath -> xbst -> res (xbst * nat).

Lemma cont3 (all : bool) id (fill : bool) e p st (parsed : list str) :
  rec_good rec e -> gi st ->
  hgood st (let '(st1, r) := xnoop all id st in
            do st2 <- attach_children rec r e p st1;
            Ok (if fill then match outs_of (x_graph st2) r with
                             | [] => let '(st3, l) := xnoop_leaf true None st2 in xadd r l st3
                             | _ => st2 end else st2, r, parsed)).
Proof.
  intros HR G.
  destruct (xnoop all id st) as [st1 r] eqn:EN.
  destruct (attach_children rec r e p st1) as [st2| | |] eqn:EA; cbn [bind hgood]; try exact I.
  eapply (container_good rec all id fill e p st); eauto. rewrite EN, EA. reflexivity.
Qed.

Lemma h_sequence_good e parsed p st : rec_good rec e -> gi st -> hgood st (h_sequence rec e parsed p st).
Proof.
  intros HR G. unfold h_sequence.
  destruct (if ahas "name" (attrs_of e) then do '(_, parsed0) <- lookup (attrs_of e) "name" parsed; Ok parsed0 else Ok parsed) as [parsed1| | |];
    cbn [bind hgood]; try exact I.
  exact (cont3 true (Some (path_str p)) true e p st parsed1 HR G).
Qed.

Lemma h_choice_good e parsed p st : rec_good rec e -> gi st -> hgood st (h_choice rec e parsed p st).
Proof.
  intros HR G. unfold h_choice.
  destruct (if ahas "name" (attrs_of e) then do '(_, parsed0) <- lookup (attrs_of e) "name" parsed; Ok parsed0 else Ok parsed) as [parsed1| | |];
    cbn [bind hgood]; try exact I.
  exact (cont3 false (Some (path_str p)) false e p st parsed1 HR G).
Qed.

Lemma h_type_good e parsed p st : rec_good rec e -> gi st -> hgood st (h_type rec e parsed p st).
Proof.
  intros HR G. unfold h_type.
  destruct (if ahas "name" (attrs_of e) then do '(n, parsed0) <- lookup (attrs_of e) "name" parsed; Ok (Some n, parsed0) else Ok (None, parsed)) as [[name parsed1]| | |];
    cbn [bind hgood]; try exact I.
  exact (cont3 true name true e p st parsed1 HR G).
Qed.

Lemma h_content_good e parsed p st : rec_good rec e -> gi st -> hgood st (h_content rec e parsed p st).
Proof. intros HR G. unfold h_content. exact (cont3 true (Some (path_str p)) false e p st parsed HR G). Qed.

Lemma h_leaf_good p parsed st : gi st -> hgood st (h_leaf p parsed st).
Proof.
  intros G. unfold h_leaf, xnoop_leaf. destruct (gi_new (KLeaf true) (Some (path_str p)) XPNone st G) as (G1 & E1 & L1 & K1 & S1). cbv zeta in *.
  destruct (xnew (KLeaf true) (Some (path_str p)) XPNone st) as [st1 l] eqn:EN. cbn [fst snd hgood] in *. subst l.
  split; [exact G1|]. split; [exact E1|lia].
Qed.

Lemma h_any_good e parsed p st : gi st -> hgood st (h_any e parsed p st).
Proof.
  intros G. unfold h_any.
  destruct (if ahas "processContents" (attrs_of e) then do '(_, parsed0) <- lookup (attrs_of e) "processContents" parsed; Ok parsed0 else Ok parsed) as [parsed1| | |];
    cbn [bind hgood]; try exact I.
  apply h_leaf_good. exact G.
Qed.
End Handlers2.

Section Handlers3.
Variable rec : xml -> xpath -> xbst -> res (xbst * nat).

Lemma h_extension_good e parsed p st : rec_good rec e -> gi st -> hgood st (h_extension rec e parsed p st).
Proof.
  intros HR G. unfold h_extension, xnoop.
  destruct (gi_new (KDec true true) (Some (path_str p)) XPNone st G) as (G1 & E1 & L1 & K1 & S1). cbv zeta in *.
  destruct (xnew (KDec true true) (Some (path_str p)) XPNone st) as [st1 root] eqn:EN. cbn [fst snd] in *. subst root.
  assert (D1 : is_dec (x_graph st1) (xlen st) = true) by (unfold is_dec; rewrite K1; reflexivity).
  destruct (lookup (attrs_of e) "base" parsed) as [[base parsed1]| | |]; cbn [bind hgood]; try exact I.
  destruct (resolve_type_good base st1 G1) as (G2 & E2 & L2). destruct (resolve_type base st1) as [st2 b]. cbn [fst snd] in *.
  destruct (gi_add (xlen st) b st2 G2) as (G3 & E3 & L3); [apply (xext_dec st1); auto; lia|exact L2|].
  destruct (attach_children rec (xlen st) e p (xadd (xlen st) b st2)) as [st4| | |] eqn:EA; cbn [bind hgood]; try exact I.
  destruct (attach_good rec (xlen st) e p _ st4 HR G3) as [G4 E4]; [destruct E2; lia|apply (xext_dec st1); [eapply xext_trans; eauto|lia|exact D1]|exact EA|].
  split; [exact G4|]. split; [eapply xext_trans; [exact E1|eapply xext_trans; [exact E2|eapply xext_trans; eauto]]|destruct E2, E4; lia].
Qed.

Lemma h_element_good e parsed p st : rec_good rec e -> gi st -> hgood st (h_element rec e parsed p st).
Proof.
  intros HR G. unfold h_element.
  destruct (lookup (attrs_of e) "name" parsed) as [[name parsed1]| | |]; cbn [bind hgood]; try exact I.
  destruct (ahas "type" (attrs_of e)).
  - destruct (lookup (attrs_of e) "type" parsed1) as [[ty parsed2]| | |]; cbn [bind hgood]; try exact I.
    destruct (gi_new (KDec false false) (Some (path_str p)) (XPElem name) st G) as (G1 & E1 & L1 & K1 & S1). cbv zeta in *.
    destruct (xnew (KDec false false) (Some (path_str p)) (XPElem name) st) as [st1 root] eqn:EN. cbn [fst snd] in *. subst root.
    destruct (resolve_type_good ty st1 G1) as (G2 & E2 & L2). destruct (resolve_type ty st1) as [st2 t]. cbn [fst snd hgood] in *.
    destruct (gi_add (xlen st) t st2 G2) as (G3 & E3 & L3);
      [apply (xext_dec st1); auto; [lia|unfold is_dec; rewrite K1; reflexivity]|exact L2|].
    split; [exact G3|]. split; [eapply xext_trans; [exact E1|eapply xext_trans; eauto]|destruct E2; lia].
  - destruct (kids_of e) as [|c [|c2 r]] eqn:K; cbn [hgood]; try exact I.
    destruct (gi_new (KDec false false) (Some (path_str p)) (XPElem name) st G) as (G1 & E1 & L1 & K1 & S1). cbv zeta in *.
    destruct (xnew (KDec false false) (Some (path_str p)) (XPElem name) st) as [st1 root] eqn:EN. cbn [fst snd] in *. subst root.
    destruct (rec c (p ++ [(tag_of c, 0)]) st1) as [[st2 n]| | |] eqn:ER; cbn [bind hgood]; try exact I.
    destruct (HR c _ st1 st2 n ltac:(rewrite K; left; reflexivity) G1 ER) as (G2 & E2 & L2).
    destruct (gi_add (xlen st) n st2 G2) as (G3 & E3 & L3);
      [apply (xext_dec st1); auto; [lia|unfold is_dec; rewrite K1; reflexivity]|exact L2|].
    split; [exact G3|]. split; [eapply xext_trans; [exact E1|eapply xext_trans; eauto]|destruct E2; lia].
Qed.

Lemma h_attribute_good e parsed p st : rec_good rec e -> gi st -> hgood st (h_attribute rec e parsed p st).
Proof.
  intros HR G. unfold h_attribute. destruct (ahas "ref" (attrs_of e)); [exact I|].
  destruct (lookup (attrs_of e) "name" parsed) as [[name parsed1]| | |]; cbn [bind hgood]; try exact I.
  destruct (if ahas "use" (attrs_of e) then do '(u, parsed0) <- lookup (attrs_of e) "use" parsed1; Ok (str_eqb u (kw "required"), parsed0) else Ok (false, parsed1))
    as [[required parsed2]| | |]; cbn [bind hgood]; try exact I.
  destruct (if ahas "default" (attrs_of e) then if required then xerr else do '(_, parsed0) <- lookup (attrs_of e) "default" parsed2; Ok parsed0 else Ok parsed2)
    as [parsed3| | |]; cbn [bind hgood]; try exact I.
  unfold xnoop, xnoop_leaf.
  destruct (gi_new (KDec false true) (Some (path_str p)) XPNone st G) as (G1 & E1 & L1 & K1 & S1). cbv zeta in *.
  destruct (xnew (KDec false true) (Some (path_str p)) XPNone st) as [st1 super] eqn:EN1. cbn [fst snd] in *. subst super.
  assert (D1 : is_dec (x_graph st1) (xlen st) = true) by (unfold is_dec; rewrite K1; reflexivity).
  destruct (gi_new (KLeaf (negb required)) None XPNone st1 G1) as (G2 & E2 & L2 & K2 & S2). cbv zeta in *.
  destruct (xnew (KLeaf (negb required)) None XPNone st1) as [st2 omit] eqn:EN2. cbn [fst snd] in *. subst omit.
  destruct (gi_add (xlen st) (xlen st1) st2 G2) as (G3 & E3 & L3); [apply (xext_dec st1); auto; lia|lia|].
  set (st3 := xadd (xlen st) (xlen st1) st2) in *.
  destruct (gi_new (KDec false false) None (XPAttr name) st3 G3) as (G4 & E4 & L4 & K4 & S4). cbv zeta in *.
  destruct (xnew (KDec false false) None (XPAttr name) st3) as [st4 root] eqn:EN4. cbn [fst snd] in *. subst root.
  assert (D4 : is_dec (x_graph st4) (xlen st3) = true) by (unfold is_dec; rewrite K4; reflexivity).
  assert (E14 : xext st1 st4) by (eapply xext_trans; [exact E2|eapply xext_trans; eauto]).
  destruct (gi_add (xlen st) (xlen st3) st4 G4) as (G5 & E5 & L5); [apply (xext_dec st1); auto; lia|lia|].
  set (st5 := xadd (xlen st) (xlen st3) st4) in *.
  assert (E05 : xext st st5) by (eapply xext_trans; [exact E1|eapply xext_trans; [exact E14|exact E5]]).
  assert (D5 : is_dec (x_graph st5) (xlen st3) = true) by (apply (xext_dec st4); auto; lia).
  assert (Lsup : forall s, xext st5 s -> xlen st < xlen s) by (intros s [X _]; lia).
  destruct (ahas "fixed" (attrs_of e)).
  - destruct (if ahas "type" (attrs_of e) then do '(_, parsed0) <- lookup (attrs_of e) "type" parsed3; Ok parsed0 else Ok parsed3) as [parsed4| | |];
      cbn [bind hgood]; try exact I.
    destruct (ahas "default" (attrs_of e)); [exact I|].
    destruct (lookup (attrs_of e) "fixed" parsed4) as [[fixed parsed5]| | |]; cbn [bind hgood]; try exact I.
    destruct (xset_good true None fixed st5 G5) as (G6 & E6 & L6). destruct (xset true None fixed st5) as [st6 l1]. cbn [fst snd] in *.
    destruct (gi_add (xlen st3) l1 st6 G6) as (G7 & E7 & L7); [apply (xext_dec st5); auto; lia|exact L6|].
    destruct (xset_good false None (fixed ++ kw "_INVALID") (xadd (xlen st3) l1 st6) G7) as (G8 & E8 & L8).
    destruct (xset false None (fixed ++ kw "_INVALID") (xadd (xlen st3) l1 st6)) as [st8 l2]. cbn [fst snd hgood] in *.
    assert (E58 : xext st5 st8) by (eapply xext_trans; [exact E6|eapply xext_trans; eauto]).
    destruct (gi_add (xlen st3) l2 st8 G8) as (G9 & E9 & L9); [apply (xext_dec st5); auto; lia|exact L8|].
    split; [exact G9|]. split; [eapply xext_trans; [exact E05|eapply xext_trans; eauto]|rewrite L9; apply Lsup; exact E58].
  - destruct (ahas "type" (attrs_of e)).
    + destruct (kids_of e); [|exact I].
      destruct (lookup (attrs_of e) "type" parsed3) as [[ty parsed4]| | |]; cbn [bind hgood]; try exact I.
      destruct (resolve_type_good ty st5 G5) as (G6 & E6 & L6). destruct (resolve_type ty st5) as [st6 t]. cbn [fst snd hgood] in *.
      destruct (gi_add (xlen st3) t st6 G6) as (G7 & E7 & L7); [apply (xext_dec st5); auto; lia|exact L6|].
      split; [exact G7|]. split; [eapply xext_trans; [exact E05|eapply xext_trans; eauto]|rewrite L7; apply Lsup; exact E6].
    + destruct (attach_children rec (xlen st3) e p st5) as [st6| | |] eqn:EA; cbn [bind hgood]; try exact I.
      destruct (attach_good rec (xlen st3) e p st5 st6 HR G5) as [G6 E6]; [lia|exact D5|exact EA|].
      split; [exact G6|]. split; [eapply xext_trans; eauto|apply Lsup; exact E6].
Qed.
End Handlers3.

Lemma h_restriction_good e parsed p st : gi st -> hgood st (h_restriction e parsed p st).
Proof.
  intros G. unfold h_restriction.
  destruct (lookup (attrs_of e) "base" parsed) as [[base parsed1]| | |]; cbn [bind hgood]; try exact I.
  destruct (kids_of e) as [|first rest].
  - destruct (resolve_type_good base st G) as (G1 & E1 & L1). destruct (resolve_type base st) as [st1 t]. cbn [fst snd hgood] in *.
    split; [exact G1|]. split; [exact E1|exact L1].
  - destruct (is_tag (tag_of first) "enumeration").
    + destruct (negb (forallb (fun c => is_tag (tag_of c) "enumeration") (first :: rest))); [exact I|].
      unfold xnoop. destruct (gi_new (KDec false true) (Some (path_str p)) XPNone st G) as (G1 & E1 & L1 & K1 & S1). cbv zeta in *.
      destruct (xnew (KDec false true) (Some (path_str p)) XPNone st) as [st1 root] eqn:EN. cbn [fst snd] in *. subst root.
      assert (D1 : is_dec (x_graph st1) (xlen st) = true) by (unfold is_dec; rewrite K1; reflexivity).
      match goal with |- hgood st (bind ?X _) => destruct X as [st2| | |] eqn:EF end; cbn [bind hgood]; try exact I.
      assert (Gen : forall l s s', gi s -> xlen st < xlen s -> is_dec (x_graph s) (xlen st) = true ->
                foldM (fun st0 c => match aget (kw "value") (attrs_of c) with
                                    | Some v => let '(st3, l0) := xset true None v st0 in Ok (xadd (xlen st) l0 st3)
                                    | None => PyErr EKeyError end) l s = Ok s' -> gi s' /\ xext s s').
      { induction l as [|c l IH]; intros s s' Gs Ls Ds H; cbn [foldM] in H.
        - inversion H; subst. split; [exact Gs|apply xext_refl].
        - destruct (aget (kw "value") (attrs_of c)) as [v|]; [|discriminate].
          destruct (xset_good true None v s Gs) as (Ga & Ea & La). destruct (xset true None v s) as [sa la]. cbn [fst snd bind] in *.
          destruct (gi_add (xlen st) la sa Ga) as (Gb & Eb & Lb); [apply (xext_dec s); auto|exact La|].
          destruct (IH (xadd (xlen st) la sa) s' Gb) as [Gc Ec]; auto.
          + destruct Ea. lia.
          + apply (xext_dec s); [eapply xext_trans; eauto|exact Ls|exact Ds].
          + split; [exact Gc|]. eapply xext_trans; [exact Ea|eapply xext_trans; eauto]. }
      destruct (Gen _ st1 st2 G1 ltac:(lia) D1 EF) as [G2 E2].
      split; [exact G2|]. split; [eapply xext_trans; eauto|destruct E2; lia].
    + destruct (negb (existsb (fun c => is_tag (tag_of c) "pattern" || is_tag (tag_of c) "minLength" || is_tag (tag_of c) "maxLength") (first :: rest))); [exact I|].
      match goal with |- hgood st (bind ?X _) => destruct X as [props| | |] end; cbn [bind hgood]; try exact I.
      destruct (negb (str_eqb base (kw "xs:string") || str_eqb base (kw "xs:token"))); [exact I|].
      destruct (aget (kw "pattern") props); [exact I|].
      match goal with |- hgood st (bind ?X _) => destruct X as [mn| | |] end; cbn [bind hgood]; try exact I.
      match goal with |- hgood st (bind ?X _) => destruct X as [mx| | |] end; cbn [bind hgood]; try exact I.
      cbv zeta. destruct (match mx with Some m => m <? mn | None => false end); [exact I|].
      destruct (filter _ props); [|exact I].
      destruct (xset_good true (Some (path_str p)) (repeat 120 mn) st G) as (G1 & E1 & L1).
      destruct (xset true (Some (path_str p)) (repeat 120 mn) st) as [st1 l]. cbn [fst snd hgood] in *.
      split; [exact G1|]. split; [exact E1|exact L1].
Qed.

Lemma dispatch_good rec e parsed p st : rec_good rec e -> gi st -> hgood st (dispatch rec e parsed p st).
Proof.
  intros HR G. unfold dispatch.
  destruct (is_tag (tag_of e) "all" || is_tag (tag_of e) "sequence"); [apply h_sequence_good; auto|].
  destruct (is_tag (tag_of e) "element"); [apply h_element_good; auto|].
  destruct (is_tag (tag_of e) "choice"); [apply h_choice_good; auto|].
  destruct (is_tag (tag_of e) "simpleType" || is_tag (tag_of e) "complexType"); [apply h_type_good; auto|].
  destruct (is_tag (tag_of e) "simpleContent" || is_tag (tag_of e) "complexContent"); [apply h_content_good; auto|].
  destruct (is_tag (tag_of e) "attribute"); [apply h_attribute_good; auto|].
  destruct (is_tag (tag_of e) "annotation"); [apply h_leaf_good; auto|].
  destruct (is_tag (tag_of e) "extension"); [apply h_extension_good; auto|].
  destruct (is_tag (tag_of e) "restriction"); [apply h_restriction_good; auto|].
  destruct (is_tag (tag_of e) "any"); [apply h_any_good; auto|exact I].
Qed.

Lemma parse_element_good : forall fuel e p st st' n, gi st -> parse_element fuel e p st = Ok (st', n) -> xgood st st' n.
Proof.
  induction fuel as [|f IH]; intros e p st st' n G H; cbn [parse_element] in H; [discriminate|].
  pose proof (dispatch_good (parse_element f) e (map fst (attrs_of e)) p st (fun c sp s s' m _ Gs Hs => IH c sp s s' m Gs Hs) G) as DG.
  destruct (dispatch (parse_element f) e (map fst (attrs_of e)) p st) as [[[st1 node] parsed1]| | |]; cbn [bind hgood] in *; try discriminate.
  destruct DG as (G1 & E1 & L1).
  destruct (ahas "minOccurs" (attrs_of e) || ahas "maxOccurs" (attrs_of e)).
  - destruct (parse_occurs (attrs_of e) parsed1) as [[[mn mx] parsed2]| | |]; cbn [bind] in H; try discriminate.
    destruct (repeat_node node mn mx st1) as [[st2 n2]| | |] eqn:ER; cbn [bind] in H; try discriminate.
    destruct (repeat_node_good node mn mx st1 st2 n2 G1 L1 ER) as (G2 & E2 & L2).
    destruct parsed2; [|discriminate]. inversion H; subst. split; [exact G2|]. split; [eapply xext_trans; eauto|exact L2].
  - cbn [bind] in H. destruct parsed1; [|discriminate]. inversion H; subst. split; [exact G1|]. split; [exact E1|exact L1].
Qed.

(* ---------- parse_xsd ---------- *)
Lemma resolve_root_lt fuel g root extra g' r : resolve fuel g root extra = Ok (g', r) -> root < length g -> r < length g.
Proof.
  intros H L. unfold resolve in H.
  match type of H with bind ?X _ = _ => destruct X as [t0| | |] eqn:T0 end; cbn [bind] in H; try discriminate.
  destruct (items fuel g root) as [its| | |] eqn:I; cbn [bind] in H; try discriminate.
  destruct (foldM (tbl_insert g) its t0) as [t| | |] eqn:T; cbn [bind] in H; try discriminate.
  destruct (deref fuel g t root) as [r0| | |] eqn:Dr; cbn [bind] in H; try discriminate.
  destruct (resolve_go fuel g t [] r0) as [[g2 vis2]| | |] eqn:G; cbn [bind] in H; try discriminate.
  inversion H; subst g2 r0. clear H.
  assert (W0 : tbl_wf g t0) by (eapply extra_tbl_wf; [|exact T0]; intros name m F; discriminate).
  pose proof (foldM_tbl_insert_wf g _ _ _ W0 T) as W.
  exact (deref_lt _ _ _ _ _ W L Dr).
Qed.

Lemma kind_app g k id m : m < length g -> kind_of (g ++ [mkNode k id [] []]) m = kind_of g m.
Proof. intros H. unfold kind_of, getn. rewrite app_nth1 by exact H. reflexivity. Qed.
Lemma kind_app_new g k id : kind_of (g ++ [mkNode k id [] []]) (length g) = k.
Proof. unfold kind_of, getn. rewrite app_nth2 by lia. rewrite Nat.sub_diag. reflexivity. Qed.

Lemma is_ref_app g k id m : m < length g -> is_ref (g ++ [mkNode k id [] []]) m = is_ref g m.
Proof. intros H. unfold is_ref, kind_of, getn. rewrite app_nth1 by exact H. reflexivity. Qed.

Theorem parse_xsd_links : forall fuel schema draws st root,
  parse_xsd fuel schema draws = Ok (st, root) ->
  forall x, reach (x_graph st) root x -> LC (x_graph st) x /\ is_ref (x_graph st) x = false.
Proof.
  intros fuel schema draws st root H. unfold parse_xsd in H.
  destruct (negb (is_tag (tag_of schema) "schema")); [discriminate|]. cbv zeta in H.
  match type of H with bind ?X _ = _ => destruct X as [[[st0 elems] others]| | |] eqn:EF end; cbn [bind] in H; try discriminate.
  (* the loop over the global components *)
  assert (Fold : forall l s el ot s' el' ot', gi s -> (forall n, In n (el ++ ot) -> n < xlen s) ->
            foldM (fun '(st, elems, others) '(sp, c) =>
                     do '(st, n) <- parse_element fuel c sp st;
                     if is_tag (tag_of c) "element" then Ok (st, elems ++ [n], others) else Ok (st, elems, others ++ [n])) l (s, el, ot) = Ok (s', el', ot') ->
            gi s' /\ forall n, In n (el' ++ ot') -> n < xlen s').
  { induction l as [|[sp c] l IH]; intros s el ot s' el' ot' G B HF; cbn [foldM] in HF.
    - inversion HF; subst. auto.
    - destruct (parse_element fuel c sp s) as [[s1 n]| | |] eqn:EP; cbn [bind] in HF; try discriminate.
      destruct (parse_element_good fuel c sp s s1 n G EP) as (G1 & E1 & L1).
      assert (B1 : forall m, In m (el ++ ot) -> m < xlen s1) by (intros m Hm; specialize (B m Hm); destruct E1; lia).
      destruct (is_tag (tag_of c) "element"); cbn [bind] in HF.
      + apply (IH s1 (el ++ [n]) ot s' el' ot' G1); [|exact HF].
        intros m Hm. apply in_app_or in Hm. destruct Hm as [Hm|Hm]; [apply in_app_or in Hm; destruct Hm as [Hm|[<-|[]]]|];
          [apply B1; apply in_or_app; auto|exact L1|apply B1; apply in_or_app; auto].
      + apply (IH s1 el (ot ++ [n]) s' el' ot' G1); [|exact HF].
        intros m Hm. apply in_app_or in Hm. destruct Hm as [Hm|Hm]; [apply B1; apply in_or_app; auto|].
        apply in_app_or in Hm. destruct Hm as [Hm|[<-|[]]]; [apply B1; apply in_or_app; auto|exact L1]. }
  assert (Gempty : gi (mkXbst [] [] draws)).
  { split; [exact empty_consistent|]. intros s X. exfalso. apply X. unfold outs_of, getn. cbn. destruct s; reflexivity. }
  destruct (Fold (enum_kids [(kw "schema", 0)] [] (kids_of schema)) (mkXbst [] [] draws) [] [] st0 elems others Gempty) as [G0 B0]; [intros n []|exact EF|].
  destruct elems as [|r0 rest]; [discriminate|].
  destruct (resolve fuel (x_graph st0) r0 (rest ++ others)) as [[gr r]| | |] eqn:ER; cbn [bind] in H; try discriminate.
  destruct G0 as [[IOc OOc] ODc].
  destruct (resolve_spec _ _ _ _ _ _ ER OOc (ins_ok_nr_of_ins_ok _ IOc) ODc) as (OOr & INr & (_ & _ & LenR) & _ & Clo).
  pose proof (resolve_root_lt _ _ _ _ _ _ ER (B0 r0 (or_introl eq_refl))) as Lr. rewrite <- LenR in Lr.
  destruct (optimize fuel gr r) as [g'| | |] eqn:EO; cbn [bind] in H; try discriminate.
  (* the live set after optimize(); nothing live is a Reference *)
  pose proof (resolved_live gr r OOr INr Clo) as L0.
  assert (H0 : ~ ~ reach gr r r) by (intros X; apply X; constructor).
  pose proof (optimize_length fuel gr r g' EO) as LenO.
  assert (Live : exists D, live_inv g' D /\ ~ D r /\ (forall x, ~ D x -> is_ref g' x = false)).
  { destruct (is_dec gr r) eqn:Dr.
    - destruct (optimize_inv fuel gr r g' _ L0 H0 Dr EO) as (D & LD & NRt & _ & KD & _ & SD).
      exists D. split; [exact LD|]. split; [exact NRt|].
      intros x Nx. rewrite (optimize_is_ref fuel gr r g' _ L0 H0 EO x).
      destruct (is_ref gr x) eqn:Rx; [|reflexivity]. exfalso. apply Nx. apply SD. intros R. specialize (Clo x R). congruence.
    - unfold optimize in EO. rewrite Dr in EO. inversion EO; subst g'.
      exists (fun x => ~ reach gr r x). split; [exact L0|]. split; [exact H0|].
      intros x Nx. destruct (is_ref gr x) eqn:Rx; [|reflexivity]. exfalso. apply Nx. intros R. specialize (Clo x R). congruence. }
  destruct Live as (D & LD & NRt & NoRef).
  pose proof (live_restrict g' D LD) as LR. set (D' := fun x => D x /\ x < length g') in *.
  assert (B : forall x, D' x -> x < length g') by (intros x [_ X]; exact X).
  assert (NR' : forall x, x < length g' -> ~ D' x -> is_ref g' x = false).
  { intros x Lx Nx. apply NoRef. intros Dx. apply Nx. split; auto. }
  assert (Nr : ~ D' r) by (intros [X _]; exact (NRt X)).
  assert (Lr' : r < length g') by lia.
  (* the start node and the output node *)
  unfold xnew, xadd in H. cbn [x_graph x_pay x_draws] in H.
  set (n1 := mkNode (KDec true false) (Some (path_str [(kw "schema", 0)])) [] []) in *.
  set (n3 := mkNode (KLeaf true) None [] []) in *.
  set (sup := length g') in *.
  set (g1 := g' ++ [n1]) in *.
  assert (L1' : live_inv g1 D') by (apply live_app; auto).
  assert (Len1 : length g1 = S sup) by (unfold g1; rewrite app_length; cbn; lia).
  assert (Ksup : is_dec g1 sup = true) by (unfold is_dec, g1, sup, n1; rewrite kind_app_new; reflexivity).
  assert (Nsup : ~ D' sup) by (intros [_ X]; unfold sup in X; lia).
  assert (Nfo : ~ D' (S sup)) by (intros [_ X]; unfold sup in X; lia).
  set (g2 := add_transition g1 sup r) in *.
  assert (L2' : live_inv g2 D') by (apply live_add; auto; lia).
  destruct (add_transition_spec g1 sup r ltac:(lia) ltac:(lia)) as (K2 & _ & _ & Len2). fold g2 in K2, Len2.
  set (g3 := g2 ++ [n3]) in *.
  assert (B2 : forall x, D' x -> x < length g2) by (intros x X; specialize (B x X); lia).
  assert (L3' : live_inv g3 D') by (apply live_app; auto).
  assert (Len3 : length g3 = S (S sup)) by (unfold g3; rewrite app_length; cbn; lia).
  assert (Ksup3 : is_dec g3 sup = true).
  { unfold is_dec, g3, n3. rewrite kind_app by lia. rewrite K2. exact Ksup. }
  set (g4 := add_transition g3 sup (S sup)) in *.
  assert (L4' : live_inv g4 D') by (apply live_add; auto; lia).
  destruct (add_transition_spec g3 sup (S sup) ltac:(lia) ltac:(lia)) as (K4 & _ & _ & Len4). fold g4 in K4, Len4.
  assert (X : x_graph st = g4 /\ root = sup).
  { inversion H as [[H1 H2]]. cbn [x_graph]. split; [|reflexivity].
    change (add_transition (g' ++ [n1]) sup r) with g2. rewrite Len2, Len1. reflexivity. }
  destruct X as [-> ->].
  intros x R. pose proof (live_reach g4 D' sup L4' Nsup x R) as Nx. split; [exact (proj1 (L4' x Nx))|].
  (* kinds: the two new nodes are not References, the old ones keep their kind *)
  unfold is_ref. rewrite K4.
  destruct (Nat.lt_ge_cases x (length g2)) as [Lt|Ge].
  - unfold g3, n3. rewrite kind_app by exact Lt. rewrite K2.
    destruct (Nat.lt_ge_cases x (length g')) as [Lt'|Ge'].
    + unfold g1, n1. rewrite kind_app by exact Lt'. exact (NR' x Lt' Nx).
    + assert (x = sup) by (unfold sup in *; lia). subst x. unfold g1, sup, n1. rewrite kind_app_new. reflexivity.
  - destruct (Nat.eq_dec x (length g2)) as [->|Ne].
    + unfold g3, n3. rewrite kind_app_new. reflexivity.
    + unfold kind_of, getn. rewrite nth_overflow by (unfold g3; rewrite app_length; cbn; lia). reflexivity.
Qed.

(* GrammarLinks.v -- the graph parse_grammar returns is consistently linked at every reachable node and no Reference
   is reachable (C14 for the grammar front end, as a theorem instead of a per-graph certificate). *)
From Fences Require Import Regex Grammar GraphSpec GraphLinks GraphOps GraphResolve GraphResolveSem GraphOpt GraphOptLinks RegexLang GrammarLang.
From Coq Require Import Lia.
Local Open Scope list_scope.

Theorem parse_grammar_links : forall fuel G start stF r,
  parse_grammar fuel G start = Ok (stF, r) ->
  forall x, reach (b_graph stF) r x -> LC (b_graph stF) x /\ is_ref (b_graph stF) x = false.
Proof.

  intros fuel G start stF r H. unfold parse_grammar in H.
  assert (FE : forall (f h : bst * list nat -> str * rhs -> bst * list nat), (forall a b, f a b = h a b) ->
                forall l a0, fold_left f l a0 = fold_left h l a0).
  { intros f h E l. induction l as [|x l IHl]; intros a0; cbn [fold_left]; [reflexivity|]. rewrite E. apply IHl. }
  match type of H with context [fold_left ?f G (bempty, [])] =>
    rewrite (FE f rule_step) in H by (intros [s0 acc0] [name0 r1]; reflexivity) end.
  pose proof (rules_fold G [] (bempty, []) rules_inv_empty) as RI. cbn [app] in RI.
  destruct (fold_left rule_step G (bempty, [])) as [st0 rules] eqn:EF.
  destruct RI as (Ok0 & F0 & Ids0). cbn [fst snd] in *.
  (* the input node, the reference to the start symbol, the output node *)
  unfold new_node at 1 in H.
  destruct (gok_new (KDec true false) None PInput st0 Ok0) as (Ok1 & L1 & S1 & V1 & I1 & J1); [intros x X; discriminate X|intros v X; discriminate X|].
  set (st1 := mkBst (b_graph st0 ++ [mkNode (KDec true false) None [] []]) (b_pay st0 ++ [PInput])) in *.
  change (length (b_graph st0)) with (len st0) in H.
  unfold new_node at 1 in H.
  destruct (gok_new (KRef start) None PNone st1 Ok1) as (Ok2 & L2 & S2 & V2 & I2 & J2); [intros x X; discriminate X|intros v X; discriminate X|].
  set (st2 := mkBst (b_graph st1 ++ [mkNode (KRef start) None [] []]) (b_pay st1 ++ [PNone])) in *.
  change (length (b_graph st1)) with (len st1) in H.
  assert (D2 : is_dec (b_graph st2) (len st0) = true).
  { unfold is_dec. rewrite (view_kind _ _ _ _ _ (eq_trans (S2 (len st0) ltac:(cbv beta; lia)) V1)). reflexivity. }
  destruct (gok_add_t (len st0) (len st1) st2 Ok2 D2 ltac:(cbv beta; lia)) as (Ok3 & L3 & S3 & V3 & I3).
  set (st3 := add_t (len st0) (len st1) st2) in *.
  unfold new_node at 1 in H.
  destruct (gok_new (KLeaf true) None POutput st3 Ok3) as (Ok4 & L4 & S4 & V4 & I4 & J4); [intros x X; discriminate X|intros v X; inversion X; auto|].
  set (st4 := mkBst (b_graph st3 ++ [mkNode (KLeaf true) None [] []]) (b_pay st3 ++ [POutput])) in *.
  change (length (b_graph st3)) with (len st3) in H.
  assert (Vr3 : view st3 (len st0) = (KDec true false, [len st1], PInput)).
  { rewrite V3. destruct (view_eq _ _ _ _ _ (eq_trans (S2 (len st0) ltac:(cbv beta; lia)) V1)) as (K & O & P). rewrite K, O, P. reflexivity. }
  assert (D4 : is_dec (b_graph st4) (len st0) = true).
  { unfold is_dec. rewrite (view_kind _ _ _ _ _ (eq_trans (S4 (len st0) ltac:(cbv beta; lia)) Vr3)). reflexivity. }
  destruct (gok_add_t (len st0) (len st3) st4 Ok4 D4 ltac:(cbv beta; lia)) as (Ok5 & L5 & S5 & V5 & I5).
  set (st5 := add_t (len st0) (len st3) st4) in *.
  assert (Vroot : view st5 (len st0) = (KDec true false, [len st1; len st3], PInput)).
  { rewrite V5. destruct (view_eq _ _ _ _ _ (eq_trans (S4 (len st0) ltac:(cbv beta; lia)) Vr3)) as (K & O & P). rewrite K, O, P. reflexivity. }
  assert (Vref : view st5 (len st1) = (KRef start, [], PNone)).
  { rewrite (S5 (len st1) ltac:(cbv beta; lia)). rewrite (S4 (len st1) ltac:(cbv beta; lia)). rewrite (S3 (len st1) ltac:(cbv beta; lia)). exact V2. }
  assert (Vfo : view st5 (len st3) = (KLeaf true, [], POutput)).
  { rewrite (S5 (len st3) ltac:(cbv beta; lia)). exact V4. }
  assert (S05 : same_on (fun m => m < len st0) st0 st5).
  { intros m Lm. rewrite (S5 m ltac:(cbv beta; lia)). rewrite (S4 m ltac:(cbv beta; lia)). rewrite (S3 m ltac:(cbv beta; lia)).
    rewrite (S2 m ltac:(cbv beta; lia)). apply S1. exact Lm. }
  assert (I05 : forall m, m < len st0 -> nid (getn (b_graph st5) m) = nid (getn (b_graph st0) m)).
  { intros m Lm. rewrite I5. rewrite J4 by lia. rewrite I3. rewrite J2 by lia. apply J1. exact Lm. }
  assert (F5 : Forall2 (rule_ok st5) rules G) by (eapply Forall2_rule_ok_move; eauto; lia).
  assert (Ids5 : forall m name, nid (getn (b_graph st5) m) = Some name -> In m rules).
  { intros m name Hm. destruct (Nat.lt_ge_cases m (len st0)) as [Lm|Lm]; [rewrite I05 in Hm by exact Lm; eapply Ids0; eauto|].
    exfalso. rewrite I5 in Hm.
    destruct (Nat.eq_dec m (len st3)) as [->|N3]; [rewrite I4 in Hm; discriminate|].
    destruct (Nat.lt_ge_cases m (len st3)) as [Lb|Lb].
    - rewrite J4 in Hm by exact Lb. rewrite I3 in Hm.
      destruct (Nat.eq_dec m (len st1)) as [->|N1]; [rewrite I2 in Hm; discriminate|].
      destruct (Nat.lt_ge_cases m (len st1)) as [Lc|Lc]; [|lia].
      rewrite J2 in Hm by exact Lc. assert (m = len st0) by lia. subst m. rewrite I1 in Hm. discriminate.
    - unfold getn in Hm. rewrite nth_overflow in Hm; [discriminate|]. fold (len st4). lia. }
  destruct (resolve fuel (b_graph st5) (len st0) rules) as [[gr r0]| | |] eqn:ER; cbn [bind] in H; try discriminate.
  destruct Ok5 as (OkS & [IOc OOc] & ODc & Pyc).
  destruct (resolve_spec _ _ _ _ _ _ ER OOc (ins_ok_nr_of_ins_ok _ IOc) ODc) as (OOr & INr & _ & _ & Clo).
  destruct (optimize fuel gr r0) as [g'| | |] eqn:EO; cbn [bind] in H; try discriminate.
  inversion H; subst stF r. cbn [b_graph].
  intros x R. split; [exact (optimize_links_resolved fuel gr r0 g' OOr INr Clo EO x R)|].
  exact (optimize_closed_resolved fuel gr r0 g' OOr INr Clo EO x R).
Qed.

(* Grammar.v -- grammar AST, MODEL of fences/grammar/convert.py (definitions only), and the
   derivability relation used as specification (C08). *)
From Fences Require Export Graph GraphOps Format Regex.

Inductive rhs :=
| GTerm (s : str)
| GNT (name : str)
| GConcat (l : list rhs)
| GAlt (l : list rhs)
| GRange (start stop : nat)
| GRep (e : rhs) (start : nat) (stop : option nat).

Definition grammar := list (str * rhs).      (* insertion-ordered dict NonTerminal -> rhs *)

Definition new_idnode (k : kind) (id : option str) (p : payload) (st : bst) : bst * nat :=
  (mkBst (b_graph st ++ [mkNode k id [] []]) (b_pay st ++ [p]), length (b_graph st)).
Definition str_leaf (s : str) := new_node (KLeaf true) (PChars s).

(* _convert *)
Fixpoint gconv (r : rhs) (st : bst) : bst * nat :=
  match r with
  | GTerm s => str_leaf s st
  | GNT name => new_node (KRef name) PNone st
  | GConcat l =>
    let '(st, root) := noop_dec true st in
    ((fix go (l : list rhs) (st : bst) : bst :=
        match l with
        | [] => st
        | x :: r => let '(st, c) := gconv x st in go r (add_t root c st)
        end) l st, root)
  | GAlt l =>
    let '(st, root) := noop_dec false st in
    ((fix go (l : list rhs) (st : bst) : bst :=
        match l with
        | [] => st
        | x :: r => let '(st, c) := gconv x st in go r (add_t root c st)
        end) l st, root)
  | GRange a b =>
    let '(st, root) := noop_dec false st in
    let '(st, l1) := str_leaf [a] st in
    let st := add_t root l1 st in
    let '(st, l2) := str_leaf [b] st in
    (add_t root l2 st, root)
  | GRep e start stop =>
    let '(st, root) := noop_dec false st in
    let '(st, child) := gconv e st in
    let st :=
      if start =? 0 then let '(st, l) := noop_leaf st in add_t root l st
      else let '(st, lower) := noop_dec true st in add_t root lower (add_times start lower child st) in
    if match stop with Some s => start =? s | None => false end then (st, root)
    else
      let n := match stop with Some s => s | None => start + 3 end in
      let '(st, upper) := noop_dec true st in
      (add_t root upper (add_times n upper child st), root)
  end.

(* convert(): one node per rule, CreateInput root over [Reference(start), FetchOutput], resolve, optimize *)
Definition parse_grammar (fuel : nat) (g : grammar) (start : str) : res (bst * nat) :=
  let '(st, rules) :=
    fold_left (fun '(st, acc) '(name, r) =>
                 let '(st, n) := new_idnode (KDec false true) (Some name) PNone st in
                 let '(st, c) := gconv r st in
                 (add_t n c st, acc ++ [n])) g (bempty, []) in
  let '(st, root) := new_node (KDec true false) PInput st in
  let '(st, ref) := new_node (KRef start) PNone st in
  let st := add_t root ref st in
  let '(st, fo) := new_node (KLeaf true) POutput st in
  let st := add_t root fo st in
  do '(gr, r) <- resolve fuel (b_graph st) root rules;
  do gr <- optimize fuel gr r;
  Ok (mkBst gr (b_pay st), r).

(* ---------- specification: derivability ---------- *)
Inductive derives (G : grammar) : rhs -> str -> Prop :=
| D_term s : derives G (GTerm s) s
| D_nt name r w : In (name, r) G -> derives G r w -> derives G (GNT name) w
| D_concat l ws : Forall2 (derives G) l ws -> derives G (GConcat l) (concat ws)
| D_alt l r w : In r l -> derives G r w -> derives G (GAlt l) w
| D_range a b c : a <= c <= b -> derives G (GRange a b) [c]
| D_rep e start stop ws :
    start <= length ws -> (forall s, stop = Some s -> length ws <= s) ->
    Forall (derives G e) ws -> derives G (GRep e start stop) (concat ws).

(* OpenApiGraph.v -- the request graph that generate_all (fences/open_api/generate.py) builds from
   its plan, as a node table of the graph model, and what its paths are (C10).

   generate_all makes one do-all root (CreateRequest), below it one choose-one NoOpDecision per
   parameter / body, below each of those one leaf per option: the omission leaf (NoOpLeaf, when the
   group has one), then one InsertParamLeaf / InsertBodyLeaf per valid sample, then one per invalid
   sample.  An operation without parameters and body gets a single valid NoOpLeaf under the root.

   [tree2 rows] is that graph for the validity flags [rows] of the leaves, group by group.  Layout of
   the table: 0 = root, 1+j = decision of group j, 1+m+offs j+i = leaf i of group j. *)
From Fences Require Export Graph OpenApi.

Fixpoint offs (rs : list (list bool)) (j : nat) : nat :=
  match j, rs with
  | S j', r :: rs' => length r + offs rs' j'
  | _, _ => 0
  end.
Definition total (rs : list (list bool)) : nat := offs rs (length rs).

(* which (group, index, flag) the x-th leaf is *)
Fixpoint locate (rs : list (list bool)) (x : nat) : option (nat * nat * bool) :=
  match rs with
  | [] => None
  | r :: rs' =>
    if x <? length r then option_map (fun v => (0, x, v)) (nth_error r x)
    else option_map (fun '(j, i, v) => (S j, i, v)) (locate rs' (x - length r))
  end.

Definition leaf_ix (rs : list (list bool)) (j i : nat) : nat := 1 + length rs + offs rs j + i.

Definition node_at (rs : list (list bool)) (n : nat) : node :=
  let m := length rs in
  if n =? 0 then mkNode (KDec true false) None (seq 1 m) []
  else if n <=? m then
    mkNode (KDec false true) None (seq (leaf_ix rs (n - 1) 0) (length (nth (n - 1) rs []))) [(0, n - 1)]
  else match locate rs (n - 1 - m) with
       | Some (j, i, v) => mkNode (KLeaf v) None [] [(S j, i)]
       | None => dummy
       end.

Definition tree2 (rs : list (list bool)) : graph := map (node_at rs) (seq 0 (1 + length rs + total rs)).

(* an operation without parameters and body: a valid NoOpLeaf directly under the root *)
Definition bare_graph : graph :=
  [mkNode (KDec true false) None [1] []; mkNode (KLeaf true) None [] [(0, 0)]].

(* ---------- what the options of a group are ---------- *)
Inductive choice := COmit | CVal (s : sample).
Definition options (gr : group) : list (bool * choice) :=
  match g_omit gr with Some v => [(v, COmit)] | None => [] end
  ++ map (fun s => (true, CVal s)) (g_valid gr) ++ map (fun s => (false, CVal s)) (g_invalid gr).
Definition plan_rows (pl : plan) : list (list bool) := map (fun gr => map fst (options gr)) pl.
Definition plan_graph (pl : plan) : graph :=
  match pl with [] => bare_graph | _ => tree2 (plan_rows pl) end.

(* the request a path describes: one option per group, in the order of the plan *)
Fixpoint picks (pl : plan) (p : list nat) : option (list (bool * choice)) :=
  match pl, p with
  | [], [] => Some []
  | gr :: r, i :: p' =>
    match nth_error (options gr) i, picks r p' with
    | Some o, Some l => Some (o :: l)
    | _, _ => None
    end
  | _, _ => None
  end.
Fixpoint pickv (rs : list (list bool)) (p : list nat) : option (list bool) :=
  match rs, p with
  | [], [] => Some []
  | r :: rs', i :: p' =>
    match nth_error r i, pickv rs' p' with
    | Some v, Some l => Some (v :: l)
    | _, _ => None
    end
  | _, _ => None
  end.

(* the trace of the run that takes option p_j in group j (groups k, k+1, ...) *)
Fixpoint trace_of (rs : list (list bool)) (k : nat) (p : list nat) : list nat :=
  match p with
  | [] => []
  | i :: p' => S k :: leaf_ix rs k i :: trace_of rs (S k) p'
  end.

(* Normalize.v -- MODEL of fences/json_schema/normalize.py and json_pointer.py (definitions only).
   Schemas are JSON values; Python dict / list operations are reproduced on insertion-ordered
   association lists.  Sets (type lists, required, enum) are insertion-ordered (see Json.v).
   Reference names (sha1 of the JSON text) are modelled by the position of the entry in the
   definitions table; the harness renames the implementation's $defs the same way. *)
From Coq Require Import String Ascii.
From Fences Require Export Json.
Definition kw (x : string) : str := map nat_of_ascii (list_ascii_of_string x).
Arguments kw x%string.
Definition kws (l : list string) : list str := map kw l.
Definition iskw (key : str) (k : string) : bool := str_eqb key (kw k).
Arguments iskw key k%string.

Record nconfig := mkNConfig { full_merge : bool; discard_fields : list str; detect_dup : bool }.
Definition default_discard : list str :=
  kws ["description"; "title"; "$comment"; "deprecated"; "example"; "examples";
       "discriminator"; "default"; "readOnly"; "writeOnly"]%string.

Definition jstr (x : string) := JStr (kw x).
Arguments jstr x%string.
Definition obj1 (k : string) (v : json) := JObj [(kw k, v)].
Arguments obj1 k%string v.
Definition NORM_FALSE := obj1 "anyOf" (JArr [obj1 "enum" (JArr [])]).
Definition NORM_TRUE := obj1 "anyOf" (JArr [JObj []]).
Definition ALL_TYPES := map jstr ["number"; "boolean"; "string"; "null"; "object"; "array"]%string.

Definition nerr {A} : res A := LibErr ENormalization.

(* x.get(k) / x[k] helpers on a schema that must be a dict *)
Definition as_list (j : json) : res (list json) := match j with JArr l => Ok l | _ => PyErr ETypeError end.
Definition as_dict (j : json) : res dict := match j with JObj d => Ok d | _ => PyErr ETypeError end.
Definition any_of (j : json) : res (list json) :=
  match j with JObj d => match dget (kw "anyOf") d with Some (JArr l) => Ok l | Some _ => PyErr ETypeError | None => PyErr EKeyError end
             | _ => PyErr ETypeError end.

(* ---------- json_pointer.py ---------- *)
Fixpoint split_slash (s cur : str) : list str :=
  match s with
  | [] => [rev cur]
  | c :: r => if Nat.eqb c 47 then rev cur :: split_slash r [] else split_slash r (c :: cur)
  end.
Definition pointer_from_string (s : str) : res (list str) :=
  if str_eqb s (kw "#/") || str_eqb s (kw "#") then Ok []
  else match s with
       | 35 :: 47 :: r => Ok (split_slash r [])
       | _ => LibErr EJsonPointer
       end.
Fixpoint digits_val (s : str) (acc : nat) : option nat :=
  match s with
  | [] => Some acc
  | c :: r => if (48 <=? c) && (c <=? 57) then digits_val r (acc * 10 + (c - 48)) else None
  end.
Fixpoint pointer_lookup (p : list str) (data : json) : res json :=
  match p with
  | [] => Ok data
  | k :: r =>
    match data with
    | JObj d => match dget k d with Some v => pointer_lookup r v | None => LibErr EJsonPointer end
    | JArr l => match k with
                | [] => LibErr EJsonPointer
                | _ => match digits_val k 0 with
                       | Some i => match nth_error l i with Some v => pointer_lookup r v | None => LibErr EJsonPointer end
                       | None => LibErr EJsonPointer
                       end
                end
    | _ => LibErr EJsonPointer
    end
  end.

Definition to_list (j : json) : list json := match j with JArr l => l | x => [x] end.
Definition num_of (j : json) : res Z := match j with JNum z => Ok z | JBool true => Ok 1%Z | JBool false => Ok 0%Z | _ => PyErr ETypeError end.

(* ---------- inverters ---------- *)
Definition typed (t : string) (k : string) (v : json) : json :=
  JObj [(kw "type", JArr [jstr t]); (kw k, v)].
Arguments typed t%string k%string v.

(* _negate: NOT(NOT(x)) = x *)
Definition negate (p : json) : json :=
  match p with
  | JObj [(k, v)] => if iskw k "not" then v else obj1 "not" p
  | _ => obj1 "not" p
  end.

Definition invert_kw (key : str) (x : json) : res json :=
  if iskw key "minimum" then Ok (typed "number" "exclusiveMaximum" x)
  else if iskw key "maximum" then Ok (typed "number" "exclusiveMinimum" x)
  else if iskw key "exclusiveMinimum" then Ok (typed "number" "maximum" x)
  else if iskw key "exclusiveMaximum" then Ok (typed "number" "minimum" x)
  else if iskw key "type" then
    Ok (obj1 "type" (JArr (pdiff ALL_TYPES (to_list x))))
  else if iskw key "enum" then Ok (obj1 "NOT_enum" x)
  else if iskw key "NOT_enum" then Ok (obj1 "enum" x)
  else if iskw key "maxLength" then do n <- num_of x; Ok (typed "string" "minLength" (JNum (n + 1)))
  else if iskw key "minLength" then
    do n <- num_of x;
    if Z.ltb 0 n then Ok (typed "string" "maxLength" (JNum (n - 1))) else Ok (obj1 "enum" (JArr []))
  else if iskw key "properties" then
    do props <- as_dict x;
    Ok (JObj [(kw "type", jstr "object");
              (kw "properties", JObj (map (fun '(n, p) => (n, negate p)) props));
              (kw "required", JArr (map (fun '(n, _) => JStr n) props))])
  else if iskw key "multipleOf" then Ok (typed "number" "NOT_multipleOf" x)
  else if iskw key "required" then
    do l <- as_list x;
    Ok (JObj [(kw "type", JArr [jstr "object"]);
              (kw "properties", JObj (fold_left (fun d i => match i with JStr s => dset s (JBool false) d | _ => d end) l []))])
  else if iskw key "items" then
    Ok (JObj [(kw "type", jstr "array"); (kw "items", negate x)])
  else if iskw key "minItems" then
    do n <- num_of x;
    if Z.ltb 0 n then Ok (JObj [(kw "type", jstr "array"); (kw "maxItems", JNum (n - 1))]) else Ok (obj1 "enum" (JArr []))
  else if iskw key "maxItems" then
    do n <- num_of x; Ok (JObj [(kw "type", jstr "array"); (kw "minItems", JNum (n + 1))])
  else if iskw key "pattern" then Ok (JObj [(kw "type", jstr "string"); (kw "pattern", x)])  (* f"!({x})": outside the dialect *)
  else if iskw key "format" then Ok (JObj [])
  else nerr.

(* _invert *)
Definition invert1 (trivial : json) : res json :=
  do d <- as_dict trivial;
  match d with
  | [] => Ok NORM_FALSE
  | _ => do l <- foldM (fun acc '(k, v) => do i <- invert_kw k v; Ok (acc ++ [i])) d [];
         Ok (obj1 "anyOf" (JArr l))
  end.

(* ---------- mergers ---------- *)
(* _float_gcd on integers below the tolerance threshold: Euclid with Python's % *)
Fixpoint zgcd (fuel : nat) (a b : Z) : Z :=
  match fuel with 0 => a | S f => if Z.eqb b 0 then a else zgcd f b (Z.modulo a b) end.

Definition hashable_all (l : list json) : bool := forallb is_scalar l.

(* _merge_enums (after the fix): members are compared as (is-boolean, value), so true <> 1 *)
Definition is_jbool (j : json) := match j with JBool _ => true | _ => false end.
Definition enum_eqb (a b : json) : bool := Bool.eqb (is_jbool a) (is_jbool b) && py_eqb a b.
Fixpoint emem (a : json) (l : list json) : bool :=
  match l with [] => false | x :: r => enum_eqb x a || emem a r end.
Fixpoint ededup (l seen : list json) : list json :=
  match l with [] => [] | x :: r => if emem x seen then ededup r seen else x :: ededup r (x :: seen) end.
Definition einter (a b : list json) : list json := ededup (filter (fun x => emem x b) a) [].

(* _all_of (after the fix): conjunction of two sub-schemas with nested conjunctions flattened and repeated
   members (same JSON text) dropped; a single remaining member stands for itself *)
Definition conj_members (x : json) : list json :=
  match x with
  | JObj [(k, JArr l)] => if iskw k "allOf" then l else [x]
  | _ => [x]
  end.
Fixpoint jdedup (l seen : list json) : list json :=
  match l with
  | [] => []
  | x :: r => if existsb (json_eqb x) seen then jdedup r seen else x :: jdedup r (x :: seen)
  end.
Definition all_of_flat (a b : json) : json :=
  match jdedup (conj_members a ++ conj_members b) [] with
  | [x] => x
  | parts => obj1 "allOf" (JArr parts)
  end.

Definition simple_merge (key : str) (a b : json) : option (res json) :=
  let num2 (f : Z -> Z -> Z) := Some (do x <- num_of a; do y <- num_of b; Ok (JNum (f x y))) in
  if iskw key "required" then
    Some (do x <- as_list a; do y <- as_list b;
          if hashable_all x && hashable_all y then Ok (JArr (punion (pset x) (pset y))) else PyErr ETypeError)
  else if iskw key "multipleOf" then
    Some (do x <- num_of a; do y <- num_of b;
          let g := zgcd 200 x y in
          if Z.eqb g 0 then PyErr EOtherPy else Ok (JNum (Z.div (Z.abs (x * y)) g)))
  else if iskw key "items" then Some (Ok (all_of_flat a b))
  else if iskw key "minimum" then num2 Z.max
  else if iskw key "maximum" then num2 Z.min
  else if iskw key "type" then
    let x := to_list a in let y := to_list b in
    Some (if hashable_all x && hashable_all y then Ok (JArr (pinter (pset x) y)) else PyErr ETypeError)
  else if iskw key "minItems" then num2 Z.max
  else if iskw key "maxItems" then num2 Z.min
  else if iskw key "pattern" then Some (Ok a)                 (* f"({a})&({b})": outside the dialect *)
  else if iskw key "minLength" then num2 Z.max
  else if iskw key "maxLength" then num2 Z.min
  else if iskw key "format" then Some (Ok a)
  else if iskw key "NOT_enum" then Some (do x <- as_list a; do y <- as_list b; Ok (JArr (x ++ y)))
  else if iskw key "enum" then
    Some (do x <- as_list a; do y <- as_list b;
          if hashable_all x && hashable_all y then Ok (JArr (einter x y)) else nerr)
  else None.

Definition is_complex (key : str) : bool := str_eqb key (kw "prefixItems") || str_eqb key (kw "properties").

Definition all_of2 (a b : json) : json := obj1 "allOf" (JArr [a; b]).

(* _merge_properties *)
Definition merge_properties (result to_add : dict) : res json :=
  do pr <- match dget (kw "properties") result with Some j => as_dict j | None => Ok [] end;
  do pa <- match dget (kw "properties") to_add with Some j => as_dict j | None => Ok [] end;
  let ar := dget (kw "additionalProperties") result in
  let aa := dget (kw "additionalProperties") to_add in
  let pr1 := map (fun '(n, s) =>
                    match dget n pa with
                    | Some s2 => (n, all_of_flat s s2)
                    | None => match aa with None => (n, s) | Some a => (n, all_of_flat s a) end
                    end) pr in
  Ok (JObj (fold_left (fun acc '(n, s) =>
                         if dhas n acc then acc
                         else match ar with None => dset n s acc | Some a => dset n (all_of_flat s a) acc end)
                      pa pr1)).

(* _merge_prefix_items *)
Definition merge_prefix_items (result to_add : dict) : res json :=
  let ia := match dget (kw "items") result with Some j => j | None => NORM_TRUE end in
  let ib := match dget (kw "items") to_add with Some j => j | None => NORM_TRUE end in
  do pa <- match dget (kw "prefixItems") result with Some (JArr l) => Ok l | Some _ => PyErr EAssertionError | None => Ok [] end;
  do pb <- match dget (kw "prefixItems") to_add with Some (JArr l) => Ok l | Some _ => PyErr EAssertionError | None => Ok [] end;
  if negb (dhas (kw "items") to_add || dhas (kw "prefixItems") to_add) then Ok (JArr pa)
  else if negb (dhas (kw "items") result || dhas (kw "prefixItems") result) then Ok (JArr pb) else
  let la := length pa in let lb := length pb in
  let pa' := if lb <? la then pa else pa ++ repeat ia (lb - la) in
  let pb' := if lb <? la then pb ++ repeat ib (la - lb) else pb in
  Ok (JArr (map (fun '(i, j) => all_of_flat i j) (combine pa' pb'))).

(* _merge: result is updated with to_add *)
Definition merge2 (result to_add : dict) : res dict :=
  (* complex mergers first, in the order prefixItems, properties *)
  do r1 <- (if dhas (kw "prefixItems") result || dhas (kw "prefixItems") to_add
            then do v <- merge_prefix_items result to_add; Ok (dset (kw "prefixItems") v result)
            else Ok result);
  do r2 <- (if dhas (kw "properties") r1 || dhas (kw "properties") to_add
            then do v <- merge_properties r1 to_add; Ok (dset (kw "properties") v r1)
            else Ok r1);
  (* simple mergers, iterating over the keys of result *)
  do r3 <- foldM (fun acc '(key, _) =>
                    match dget key acc, dget key to_add with
                    | Some value, Some other =>
                        match simple_merge key value other with
                        | Some m => do v <- m; Ok (dset key v acc)
                        | None => if is_complex key then Ok acc else nerr
                        end
                    | _, _ => Ok acc
                    end) r2 r2;
  (* copy the remaining keys *)
  Ok (fold_left (fun acc '(key, value) =>
                   if dhas key acc || is_complex key then acc else dset key value acc) to_add r3).

Definition merge_full_ (schemas : list json) : res json :=
  match schemas with [] => PyErr EAssertionError | _ =>
  do result <- foldM (fun (result : list dict) schema =>
                        do opts <- any_of schema;
                        foldM (fun new_result option =>
                                 do o <- as_dict option;
                                 do row <- foldM (fun acc i => do ii <- merge2 i o; Ok (acc ++ [ii])) result [];
                                 Ok (new_result ++ row)) opts [])
                     schemas [[]];
  Ok (obj1 "anyOf" (JArr (map JObj result)))
  end.

Definition merge_simple_ (schemas : list json) : res json :=
  match schemas with [] => PyErr EAssertionError | _ =>
  do aos <- foldM (fun acc s => do l <- any_of s; Ok (acc ++ [l])) schemas [];
  let num := fold_left Nat.max (map (@length json) aos) 0 in
  do results <- foldM (fun acc idx =>
                         do r <- foldM (fun (result : dict) ao =>
                                          match ao with
                                          | [] => Ok result
                                          | _ => match nth_error ao (Nat.modulo idx (length ao)) with
                                                 | Some option => do o <- as_dict option; merge2 result o
                                                 | None => PyErr EIndexError
                                                 end
                                          end) aos [];
                         Ok (acc ++ [JObj r])) (seq 0 num) [];
  Ok (obj1 "anyOf" (JArr results))
  end.

Definition merge (cfg : nconfig) (schemas : list json) : res json :=
  if full_merge cfg then merge_full_ schemas else merge_simple_ schemas.

(* invert *)
Definition invert (cfg : nconfig) (norm : json) : res json :=
  do l <- any_of norm;
  do inv <- foldM (fun acc i => do x <- invert1 i; Ok (acc ++ [x])) l [];
  merge cfg inv.

(* ---------- simplifications ---------- *)
(* const next to enum (after the fix): _merge_enums(enum, [const]) -- the constant if the enum lists it, nothing otherwise *)
Definition simplify_const (d : dict) : res dict :=
  match dget (kw "const") d with
  | None => Ok d
  | Some c =>
    let d' := ddel (kw "const") d in
    match dget (kw "enum") d' with
    | Some (JArr l) =>
        if hashable_all l && is_scalar c then Ok (dset (kw "enum") (JArr (einter l [c])) d') else nerr
    | Some _ => PyErr ETypeError
    | None => Ok (dset (kw "enum") (JArr [c]) d')
    end
  end.

Record svariant := mkSV { fix_lone_if : bool }.

Definition simplify_ite (SV : svariant) (d : dict) : dict :=
  if negb (dhas (kw "if") d || dhas (kw "then") d || dhas (kw "else") d) then d else
  let side := ddel (kw "else") (ddel (kw "then") (ddel (kw "if") d)) in
  match dget (kw "if") d with
  | None => side
  | Some i =>
    let t := dget (kw "then") d in let e := dget (kw "else") d in
    match t, e with
    | None, None => if fix_lone_if SV then side else []
    | _, _ =>
      let t' := match t with Some x => x | None => JObj [] end in
      let e' := match e with Some x => x | None => JObj [] end in
      [(kw "allOf", JArr [JObj side;
          obj1 "anyOf" (JArr [all_of2 i t'; all_of2 (obj1 "not" i) e'])])]
    end
  end.

Definition simplify_type (d : dict) : res dict :=
  match dget (kw "type") d with
  | None => Ok d
  | Some t =>
    let types := to_list t in
    if negb (hashable_all types) then PyErr ETypeError else
    let s := pset types in
    let without_int := filter (fun y => negb (py_eqb y (jstr "integer"))) s in
    if pmem (jstr "number") s then Ok (dset (kw "type") (JArr without_int) d)
    else if pmem (jstr "integer") s then
      Ok [(kw "allOf", JArr [obj1 "multipleOf" (JNum 1);
                             JObj (dset (kw "type") (JArr (without_int ++ [jstr "number"])) d)])]
    else Ok (dset (kw "type") (JArr s) d)
  end.

Definition simplify_depreq (d : dict) : res dict :=
  match dget (kw "dependentRequired") d with
  | None => Ok d
  | Some dr =>
    do drd <- as_dict dr;
    let side := ddel (kw "dependentRequired") d in
    do opts <- foldM (fun acc '(prop, requires) =>
                        do rq <- as_list requires;
                        let names := fold_left (fun dd r => match r with JStr s => dset s (JBool true) dd | _ => dd end) rq [] in
                        let props1 := dset prop (JBool false) names in
                        let props2 := dset prop (JBool true) names in
                        Ok (acc ++ [obj1 "anyOf" (JArr [obj1 "properties" (JObj props1);
                                                        JObj [(kw "properties", JObj props2);
                                                              (kw "required", JArr (rq ++ [JStr prop]))]])]))
                     drd [];
    Ok [(kw "allOf", JArr (JObj side :: opts))]
  end.

(* ---------- _to_dnf ---------- *)
Section Norm.
Variable SV : svariant.
Variable cfg : nconfig.

Fixpoint to_dnf (fuel : nat) (schema : json) : res json :=
  match fuel with 0 => OutOfFuel | S f =>
  match schema with
  | JBool false => Ok NORM_FALSE
  | JBool true => Ok NORM_TRUE
  | JObj d0 =>
    let d1 := filter (fun '(k, _) => negb (smem k (discard_fields cfg))) d0 in
    do dc <- simplify_const d1;
    let d2 := simplify_ite SV dc in
    do d3 <- simplify_type d2;
    do d <- simplify_depreq d3;
    (* anyOf *)
    do any_ofs <- match dget (kw "anyOf") d with
                  | Some j => do l <- as_list j;
                              foldM (fun acc s => do n <- to_dnf f s; do a <- any_of n; Ok (acc ++ a)) l []
                  | None => Ok [JObj []]
                  end;
    (* oneOf *)
    do one_ofs <- match dget (kw "oneOf") d with
                  | Some j =>
                    do l <- as_list j;
                    do subs <- foldM (fun acc s => do n <- to_dnf f s; Ok (acc ++ [n])) l [];
                    foldM (fun acc idx =>
                             do parts <- foldM (fun acc2 '(sub_idx, i) =>
                                                  if sub_idx =? idx then Ok (acc2 ++ [i])
                                                  else do x <- invert cfg i; Ok (acc2 ++ [x])) (enumerate subs) [];
                             do o <- merge cfg parts;
                             do a <- any_of o; Ok (acc ++ a)) (seq 0 (length subs)) []
                  | None => Ok [JObj []]
                  end;
    (* allOf, not *)
    let side := ddel (kw "not") (ddel (kw "oneOf") (ddel (kw "anyOf") (ddel (kw "allOf") d))) in
    do all1 <- match dget (kw "allOf") d with
               | Some j => do l <- as_list j;
                           foldM (fun acc s => do n <- to_dnf f s; Ok (acc ++ [n])) l []
               | None => Ok []
               end;
    do all2 <- match dget (kw "not") d with
               | Some n => do nn <- to_dnf f n; do i <- invert cfg nn; Ok [i]
               | None => Ok []
               end;
    do s <- merge cfg (obj1 "anyOf" (JArr [JObj side]) :: all1 ++ all2);
    merge cfg [obj1 "anyOf" (JArr any_ofs); obj1 "anyOf" (JArr one_ofs); s]
  | _ => PyErr ETypeError
  end end.

(* ---------- _inline_refs ---------- *)
Fixpoint inline_refs (fuel : nat) (root : json) (schema : json) : res (json * bool) :=
  match fuel with 0 => OutOfFuel | S f =>
  match schema with
  | JBool false => Ok (NORM_FALSE, false)
  | JBool true => Ok (NORM_TRUE, false)
  | JObj d =>
    do '(d1, c1) <- match dget (kw "$ref") d with
                    | Some (JStr r) =>
                      do p <- pointer_from_string r;
                      do target <- pointer_lookup p root;
                      Ok ([(kw "allOf", JArr [JObj (ddel (kw "$ref") d); target])], true)
                    | Some _ => PyErr EAttributeError
                    | None => Ok (d, false)
                    end;
    do '(d2, c2) <- foldM (fun '(dd, c) k =>
                             match dget (kw k) dd with
                             | Some j => do l <- as_list j;
                                         do '(l', c') <- foldM (fun '(acc, cc) s =>
                                                                  do '(s', c'') <- inline_refs f root s;
                                                                  Ok (acc ++ [s'], cc || c'')) l ([], c);
                                         Ok (dset (kw k) (JArr l') dd, c')
                             | None => Ok (dd, c)
                             end) ["anyOf"; "allOf"; "oneOf"]%string (d1, c1);
    do '(dd, c) <- foldM (fun '(dd, c) k =>
             match dget (kw k) dd with
             | Some s => do '(s', c') <- inline_refs f root s; Ok (dset (kw k) s' dd, c || c')
             | None => Ok (dd, c)
             end) ["not"; "if"; "then"; "else"]%string (d2, c2);
    Ok (JObj dd, c)
  | _ => PyErr ETypeError
  end end.
End Norm.

(* ---------- _normalize / normalize ---------- *)
Section Norm2.
Variable SV : svariant.
Variable cfg : nconfig.

Definition refs := list (json * json).     (* schema text -> normalised result, in insertion order *)
Fixpoint ref_index (k : json) (r : refs) (i : nat) : option nat :=
  match r with [] => None | (k', _) :: t => if json_eqb k' k then Some i else ref_index k t (S i) end.
Fixpoint ref_set (i : nat) (v : json) (r : refs) : refs :=
  match r, i with
  | [], _ => []
  | (k, _) :: t, 0 => (k, v) :: t
  | x :: t, S j => x :: ref_set j v t
  end.

Fixpoint nat_digits (fuel n : nat) (acc : str) : str :=
  match fuel with
  | 0 => acc
  | S f => let acc' := (48 + Nat.modulo n 10) :: acc in
           if n <? 10 then acc' else nat_digits f (Nat.div n 10) acc'
  end.
Definition ref_name (i : nat) : str := kw "#/$defs/" ++ nat_digits 20 i [].
Definition ref_schema (i : nat) : json := obj1 "anyOf" (JArr [obj1 "$ref" (JStr (ref_name i))]).

Fixpoint normalize_go (fuel : nat) (root : json) (schema : json) (nr : refs) : res (json * refs) :=
  match fuel with 0 => OutOfFuel | S f =>
  match schema with
  | JBool false => Ok (NORM_FALSE, nr)
  | JBool true => Ok (NORM_TRUE, nr)
  | JObj [] => Ok (NORM_TRUE, nr)
  | JObj _ =>
    match ref_index schema nr 0 with
    | Some i => Ok (ref_schema i, nr)
    | None =>
      do '(inlined, contains) <- inline_refs f root schema;
      do result <- to_dnf SV cfg f inlined;
      let contains := contains || detect_dup cfg in
      let slot := length nr in
      let nr1 := if contains then nr ++ [(schema, result)] else nr in
      do alts <- any_of result;
      do '(alts', nr2) <-
        foldM (fun '(acc, nr) alt =>
                 do d <- as_dict alt;
                 (* additionalProperties, items, additionalItems, contains *)
                 do '(d1, nrA) <- foldM (fun '(d, nr) k =>
                                          match dget k d with
                                          | Some s => do '(s', nr') <- normalize_go f root s nr; Ok (dset k s' d, nr')
                                          | None => Ok (d, nr)
                                          end)
                                       (kws ["additionalProperties"; "items"; "additionalItems"; "contains"]%string) (d, nr);
                 (* properties *)
                 do '(d2, nrB) <- match dget (kw "properties") d1 with
                                  | Some pj =>
                                    do props <- as_dict pj;
                                    do '(props', nr') <- foldM (fun '(pacc, nr) '(name, s) =>
                                                                 do '(s', nr') <- normalize_go f root s nr;
                                                                 Ok (pacc ++ [(name, s')], nr')) props ([], nrA);
                                    Ok (dset (kw "properties") (JObj props') d1, nr')
                                  | None => Ok (d1, nrA)
                                  end;
                 (* prefixItems *)
                 do '(d3, nrC) <- match dget (kw "prefixItems") d2 with
                                  | Some pj =>
                                    do items <- as_list pj;
                                    do '(items', nr') <- foldM (fun '(iacc, nr) s =>
                                                                 do '(s', nr') <- normalize_go f root s nr;
                                                                 Ok (iacc ++ [s'], nr')) items ([], nrB);
                                    Ok (dset (kw "prefixItems") (JArr items') d2, nr')
                                  | None => Ok (d2, nrB)
                                  end;
                 Ok (acc ++ [JObj d3], nrC)) alts ([], nr1);
      let final := obj1 "anyOf" (JArr alts') in
      if contains then Ok (ref_schema slot, ref_set slot final nr2) else Ok (final, nr2)
    end
  | _ => PyErr ETypeError       (* not reached through normalize(): sub-schemas are dicts or booleans *)
  end end.

Definition normalize (fuel : nat) (schema : json) : res json :=
  match schema with
  | JBool false => Ok NORM_FALSE
  | JBool true => Ok NORM_TRUE
  | JObj d =>
    let stripped := ddel (kw "$defs") (ddel (kw "$schema") d) in
    do '(n, nr) <- normalize_go fuel schema (JObj stripped) [];
    do nd <- as_dict n;
    let nd1 := match dget (kw "$schema") d with Some s => dset (kw "$schema") s nd | None => nd end in
    Ok (JObj (dset (kw "$defs")
                   (JObj (map (fun '(i, (_, v)) => (nat_digits 20 i [], v)) (enumerate nr))) nd1))
  | _ => nerr
  end.
End Norm2.

(* OpenApi.v -- MODEL of the SampleCache state machine and of generate_all / generate_one_valid
   in fences/open_api/generate.py (definitions only).  C18, and the request plan used by C10.

   Schemas are identified by the JSON text SampleCache._to_key gives them (a number here: equal
   text <-> equal number); samples by the JSON text of the value.  The JSON pipeline
   (normalize + parse + generate_paths + execute inside SampleCache.add) is the parameter
   [compute]: a function of the key and of the is_body flag only. *)
From Fences Require Export Base Format.

Definition key := nat.
Definition sample := nat.
Definition samples := (list sample * list sample)%type.       (* valid, invalid *)

Inductive position := PQuery | PHeader | PPath | PCookie.

Record param := mkParam {
  p_name : nat; p_pos : position; p_required : bool; p_schema : key }.
Record operation := mkOp {
  o_id : nat;
  o_params : list param;
  o_body : option (key * bool) }.                            (* schema, required *)

Definition table := list (key * samples).
Record cache := mkCache { c_body : table; c_other : table }.
Definition empty_cache := mkCache [] [].

Fixpoint tlookup (k : key) (t : table) : option samples :=
  match t with [] => None | (k', s) :: r => if k' =? k then Some s else tlookup k r end.
Fixpoint tset (k : key) (s : samples) (t : table) : table :=
  match t with
  | [] => [(k, s)]
  | (k', s') :: r => if k' =? k then (k, s) :: r else (k', s') :: tset k s r
  end.
Fixpoint olookup {A} (n : nat) (l : list (nat * A)) : option A :=
  match l with [] => None | (n', a) :: r => if n' =? n then Some a else olookup n r end.

(* fix_cache = false: the pinned code, where generate_all assigns the caller's valid values to the
   Samples object that the cache holds (samples.valid = valid_values[name]) *)
Record ovariant := mkOV { fix_cache : bool }.

Section Cache.
Variable V : ovariant.
Variable compute : key -> bool -> res samples.

(* SampleCache.add *)
Definition add (c : cache) (k : key) (is_body : bool) : cache * res samples :=
  match tlookup k (if is_body then c_body c else c_other c) with
  | Some s => (c, Ok s)
  | None =>
    match compute k is_body with
    | Ok s => (if is_body then mkCache (tset k s (c_body c)) (c_other c)
               else mkCache (c_body c) (tset k s (c_other c)), Ok s)
    | e => (c, e)
    end
  end.

(* what generate_all builds under the request node, per parameter / body:
   omission leaf (Some validity) or none, then valid samples, then invalid samples *)
Record group := mkGroup {
  g_param : option param;                (* None = the body *)
  g_omit : option bool;
  g_valid : list sample;
  g_invalid : list sample }.
Definition plan := list group.

Definition is_path (p : position) : bool := match p with PPath => true | _ => false end.

Fixpoint ga_params (c : cache) (ps : list param) (ov : list (nat * list sample)) (acc : plan)
  : cache * res plan :=
  match ps with
  | [] => (c, Ok acc)
  | p :: r =>
    match add c (p_schema p) false with
    | (c1, Ok s) =>
      let valid := match olookup (p_name p) ov with Some l => l | None => fst s end in
      let c2 := match olookup (p_name p) ov with
                | Some l => if fix_cache V then c1
                            else mkCache (c_body c1) (tset (p_schema p) (l, snd s) (c_other c1))
                | None => c1 end in
      ga_params c2 r ov
        (acc ++ [mkGroup (Some p) (if is_path (p_pos p) then None else Some (negb (p_required p)))
                         valid (snd s)])
    | (c1, LibErr e) => (c1, LibErr e)
    | (c1, PyErr e) => (c1, PyErr e)
    | (c1, OutOfFuel) => (c1, OutOfFuel)
    end
  end.

Definition generate_all (c : cache) (op : operation) (ov : list (nat * list sample))
  : cache * res plan :=
  match ga_params c (o_params op) ov [] with
  | (c1, Ok pl) =>
    match o_body op with
    | None => (c1, Ok pl)
    | Some (k, required) =>
      match add c1 k true with
      | (c2, Ok s) => (c2, Ok (pl ++ [mkGroup None (Some (negb required)) (fst s) (snd s)]))
      | (c2, LibErr e) => (c2, LibErr e)
      | (c2, PyErr e) => (c2, PyErr e)
      | (c2, OutOfFuel) => (c2, OutOfFuel)
      end
    end
  | r => r
  end.

(* generate_one_valid: (parameter, raw sample) pairs and the body *)
Fixpoint go_params (c : cache) (ps : list param) (ow : list (nat * sample))
  (acc : list (param * sample)) : cache * res (list (param * sample)) :=
  match ps with
  | [] => (c, Ok acc)
  | p :: r =>
    match olookup (p_name p) ow with
    | Some s => go_params c r ow (acc ++ [(p, s)])
    | None =>
      if p_required p then
        match add c (p_schema p) false with
        | (c1, Ok (v :: _, _)) => go_params c1 r ow (acc ++ [(p, v)])
        | (c1, Ok ([], _)) => (c1, PyErr EIndexError)
        | (c1, LibErr e) => (c1, LibErr e)
        | (c1, PyErr e) => (c1, PyErr e)
        | (c1, OutOfFuel) => (c1, OutOfFuel)
        end
      else go_params c r ow acc
    end
  end.

Definition generate_one_valid (c : cache) (op : operation) (ow : list (nat * sample))
  : cache * res (list (param * sample) * option sample) :=
  match go_params c (o_params op) ow [] with
  | (c1, Ok l) =>
    match o_body op with
    | None => (c1, Ok (l, None))
    | Some (k, _) =>
      match add c1 k true with
      | (c2, Ok (v :: _, _)) => (c2, Ok (l, Some v))
      | (c2, Ok ([], _)) => (c2, PyErr EIndexError)
      | (c2, LibErr e) => (c2, LibErr e)
      | (c2, PyErr e) => (c2, PyErr e)
      | (c2, OutOfFuel) => (c2, OutOfFuel)
      end
    end
  | (c1, LibErr e) => (c1, LibErr e)
  | (c1, PyErr e) => (c1, PyErr e)
  | (c1, OutOfFuel) => (c1, OutOfFuel)
  end.

(* call histories on one shared cache *)
Inductive call :=
| CallAll (op : operation) (ov : list (nat * list sample))
| CallOne (op : operation) (ow : list (nat * sample)).

Definition step (c : cache) (x : call) : cache :=
  match x with
  | CallAll op ov => fst (generate_all c op ov)
  | CallOne op ow => fst (generate_one_valid c op ow)
  end.
Definition run_history (h : list call) : cache := fold_left step h empty_cache.

End Cache.

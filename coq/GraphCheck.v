(* GraphCheck.v -- a boolean checker for well-formedness, proved sufficient.  Used for the
   non-vacuity examples and, extracted, to tag the cases of the correspondence stream with the
   model's own notion of "well-formed" (the quantifier of C03-C05). *)
From Fences Require Import GraphSpec GraphLinks GraphExec.

Definition pair_eqb (a b : nat * nat) : bool := (fst a =? fst b) && (snd a =? snd b).
Definition mem_pair (p : nat * nat) (l : list (nat * nat)) : bool := existsb (pair_eqb p) l.

Definition ins_okb (g : graph) : bool :=
  forallb (fun n => forallb (fun '(s, i) =>
      is_dec g s && match nth_error (outs_of g s) i with Some t => t =? n | None => false end)
    (ins_of g n)) (seq 0 (length g)).
Definition outs_okb (g : graph) : bool :=
  forallb (fun s => forallb (fun '(i, t) => mem_pair (s, i) (ins_of g t))
    (enumerate (outs_of g s))) (seq 0 (length g)).
Definition norefsb (g : graph) : bool :=
  forallb (fun n => match kind_of g n with KRef _ => false | _ => true end) (seq 0 (length g)).
Definition nonemptyb (g : graph) : bool :=
  forallb (fun n => negb (is_dec g n) || match outs_of g n with [] => false | _ => true end)
          (seq 0 (length g)).
Definition reachb (g : graph) (root : nat) : bool :=
  match items (S (length g)) g root with
  | Ok its => forallb (fun n => mem n its) (seq 0 (length g))
  | _ => false
  end.
Definition wfb (g : graph) (root : nat) : bool :=
  ins_okb g && outs_okb g && norefsb g && nonemptyb g && reachb g root &&
  (root <? length g) && match ins_of g root with [] => true | _ => false end.

Lemma forallb_seq (p : nat -> bool) n : forallb p (seq 0 n) = true -> forall k, k < n -> p k = true.
Proof. intros H k L. rewrite forallb_forall in H. apply H. apply in_seq. lia. Qed.

Lemma mem_pair_In p l : mem_pair p l = true -> In p l.
Proof.
  unfold mem_pair. rewrite existsb_exists. intros (x & Hx & E). unfold pair_eqb in E.
  apply andb_true_iff in E. destruct E as [E1 E2]. apply Nat.eqb_eq in E1, E2.
  destruct p, x; simpl in *; subst; auto.
Qed.

Lemma enum_from_In {A} (l : list A) k i t : nth_error l i = Some t -> In (k + i, t) (enum_from k l).
Proof.
  revert k i; induction l as [|x r IH]; intros k i H; destruct i; simpl in *; try discriminate.
  - inversion H; subst. left. f_equal. lia.
  - right. replace (k + S i) with (S k + i) by lia. apply IH. exact H.
Qed.

Lemma wfb_wf g root : wfb g root = true -> wf g root.
Proof.
  unfold wfb. rewrite !andb_true_iff. intros [[[[[[H1 H2] H3] H4] H5] H6] H7].
  constructor.
  - split.
    + intros n s i Hin. destruct (Nat.lt_ge_cases n (length g)) as [L|L].
      * pose proof (forallb_seq _ _ H1 n L) as F. simpl in F. rewrite forallb_forall in F.
        specialize (F _ Hin). simpl in F. apply andb_true_iff in F. destruct F as [D N]. split; auto.
        destruct (nth_error (outs_of g s) i); [|discriminate]. apply Nat.eqb_eq in N. subst. reflexivity.
      * unfold ins_of in Hin. rewrite getn_out in Hin by exact L. contradiction.
    + intros s i t N. destruct (Nat.lt_ge_cases s (length g)) as [L|L].
      * pose proof (forallb_seq _ _ H2 s L) as F. simpl in F. rewrite forallb_forall in F.
        apply mem_pair_In. apply (F (i, t)). apply (enum_from_In _ 0). exact N.
      * unfold outs_of in N. rewrite getn_out in N by exact L. destruct i; discriminate.
  - intros n name K. destruct (Nat.lt_ge_cases n (length g)) as [L|L].
    + pose proof (forallb_seq _ _ H3 n L) as F. simpl in F. rewrite K in F. discriminate.
    + unfold kind_of in K. rewrite getn_out in K by exact L. discriminate.
  - intros n D O. pose proof (is_dec_lt _ _ D) as L.
    pose proof (forallb_seq _ _ H4 n L) as F. simpl in F. rewrite D, O in F. discriminate.
  - intros n L. unfold reachb in H5.
    destruct (items (S (length g)) g root) as [its| | |] eqn:I; try discriminate.
    pose proof (forallb_seq _ _ H5 n L) as F. simpl in F. apply mem_In in F.
    eapply items_reach; eauto.
  - apply Nat.ltb_lt. exact H6.
  - destruct (ins_of g root); auto. discriminate.
Qed.

(* ---------- which nodes have a valid completion; productive / acyclic graphs (C11) ---------- *)
Definition vc_step (g : graph) (vc : list bool) : list bool :=
  map (fun n => match kind_of g n with
                | KLeaf v => v
                | KDec true _ => forallb (fun t => nth t vc false) (outs_of g n)
                | KDec false _ => existsb (fun t => nth t vc false) (outs_of g n)
                | KRef _ => false
                end) (seq 0 (length g)).
Definition vcb (g : graph) : list bool :=
  Nat.iter (length g) (vc_step g) (repeat false (length g)).
Definition productiveb (g : graph) : bool :=
  let vc := vcb g in forallb (fun n => negb (is_dec g n) || nth n vc false) (seq 0 (length g)).

Definition safe_step (g : graph) (sf : list bool) : list bool :=
  map (fun n => forallb (fun t => nth t sf false) (outs_of g n)) (seq 0 (length g)).
Definition acyclicb (g : graph) : bool :=
  forallb (fun b => b) (Nat.iter (length g) (safe_step g) (repeat false (length g))).

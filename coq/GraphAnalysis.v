(* GraphAnalysis.v -- _analyze_backwards computes distances that are finite exactly on the
   transitions whose target has a completion made of valid leaves (soundness and completeness);
   items() reaches every node reachable from the root. *)
From Fences Require Import GraphSpec GraphLinks GraphExec.

Lemma aupd_same m a b v : aupd m a b v a b = v.
Proof. unfold aupd. rewrite !Nat.eqb_refl. reflexivity. Qed.

Lemma aupd_other m a b v x y : (x, y) <> (a, b) -> aupd m a b v x y = m x y.
Proof.
  intros N. unfold aupd. destruct (Nat.eqb_spec x a) as [->|]; simpl; auto.
  destruct (Nat.eqb_spec y b) as [->|]; simpl; auto. congruence.
Qed.

Lemma dist_lt_none_r L d : dist_lt (Some L) d = false -> d <> None.
Proof. destruct d; simpl; intros; congruence. Qed.

Lemma fold_max_some l L :
  fold_right dist_max (Some 0) l = Some L -> forall d, In d l -> d <> None.
Proof.
  revert L; induction l as [|x r IH]; simpl; intros L H d Hd; [contradiction|].
  destruct x as [vx|]; simpl in H; [|discriminate].
  destruct (fold_right dist_max (Some 0) r) as [m|] eqn:E; [|discriminate].
  destruct Hd as [<-|Hd]; [discriminate|]. eapply IH; eauto.
Qed.

Lemma fold_max_none l :
  fold_right dist_max (Some 0) l = None -> exists d, In d l /\ d = None.
Proof.
  induction l as [|x r IH]; simpl; intros H; [discriminate|].
  destruct x as [vx|]; [|exists None; auto].
  destruct (fold_right dist_max (Some 0) r) as [m|] eqn:E; [discriminate|].
  destruct (IH eq_refl) as (d & Hd & ->). exists None; auto.
Qed.

Lemma max_outs_some g lv n L :
  max_outs g lv n = Some L -> forall i t, nth_error (outs_of g n) i = Some t -> lv n i <> None.
Proof.
  unfold max_outs. intros H i t N. eapply fold_max_some; eauto.
  assert (Li : i < length (outs_of g n)) by (apply nth_error_Some; congruence).
  eapply nth_error_In. apply row_nth. exact Li.
Qed.

Lemma max_outs_none g lv n :
  max_outs g lv n = None -> exists i, i < length (outs_of g n) /\ lv n i = None.
Proof.
  unfold max_outs. intros H. apply fold_max_none in H. destruct H as (d & Hd & ->).
  apply In_nth_error in Hd. destruct Hd as [i Hi].
  assert (Li : i < length (outs_of g n)).
  { rewrite <- (row_length lv n (length (outs_of g n))). apply nth_error_Some. congruence. }
  rewrite row_nth in Hi by exact Li. exists i. split; auto. congruence.
Qed.

Definition mono (lv lv' : amap) : Prop := forall s i, lv s i <> None -> lv' s i <> None.

Lemma mono_refl lv : mono lv lv. Proof. intros s i H; exact H. Qed.
Lemma mono_trans a b c : mono a b -> mono b c -> mono a c.
Proof. intros H1 H2 s i H. auto. Qed.
Lemma mono_aupd lv s i L : mono lv (aupd lv s i (Some L)).
Proof.
  intros s' i' H. unfold aupd. destruct ((s' =? s) && (i' =? i)); auto. discriminate.
Qed.

Section Analysis.
Variable g : graph.
Hypothesis IO : ins_ok g.

(* ---------- soundness ---------- *)
Lemma ab_sound : forall f lv n len lv',
  ab f g lv n len = Ok lv' -> sound g lv -> (is_all g n = false -> VC g n) -> sound g lv'.
Proof.
  induction f as [|f IH]; intros lv n len lv' H Hs Pre; cbn [ab] in H; [discriminate|].
  assert (Loop : forall L, VC g n -> forall l lv0 lv1,
            (forall s i, In (s, i) l -> In (s, i) (ins_of g n)) ->
            foldM (fun lv '(s, idx) =>
                     if idx <? length (outs_of g s) then
                       if dist_lt (Some L) (lv s idx)
                       then ab f g (aupd lv s idx (Some L)) s (S L)
                       else Ok lv
                     else PyErr EIndexError) l lv0 = Ok lv1 ->
            sound g lv0 -> sound g lv1).
  { intros L Vn. induction l as [|[s idx] l IHl]; intros lv0 lv1 Sub F S0; cbn [foldM bind] in F.
    - inversion F; subst; auto.
    - destruct (idx <? length (outs_of g s)); [|discriminate].
      destruct (IO n s idx (Sub _ _ (or_introl eq_refl))) as [Ds Ns].
      destruct (dist_lt (Some L) (lv0 s idx)).
      + destruct (ab f g (aupd lv0 s idx (Some L)) s (S L)) as [lv2| | |] eqn:E; cbn [foldM bind] in F; try discriminate.
        eapply IHl; [intros; apply Sub; right; eauto|exact F|].
        eapply IH; [exact E| |].
        * intros s' i' t' N' Fin.
          destruct (Nat.eq_dec s' s) as [->|Ne]; [destruct (Nat.eq_dec i' idx) as [->|Ne]|].
          -- rewrite Ns in N'. inversion N'; subst. exact Vn.
          -- rewrite aupd_other in Fin by congruence. eapply S0; eauto.
          -- rewrite aupd_other in Fin by congruence. eapply S0; eauto.
        * intros As. eapply VC_one; eauto. eapply nth_error_In; eauto.
      + cbn [foldM bind] in F. eapply IHl; [intros; apply Sub; right; eauto|exact F|exact S0]. }
  destruct (is_all g n) eqn:A.
  - destruct (outs_of g n) as [|o0 os] eqn:O; [discriminate|].
    destruct (max_outs g lv n) as [L|] eqn:M; [|inversion H; subst; auto].
    eapply (Loop L); [|intros; eauto|exact H|exact Hs].
    assert (D : is_dec g n = true).
    { unfold is_all, is_dec in *. destruct (kind_of g n); auto; discriminate. }
    apply VC_all; auto. intros t Ht. apply In_nth_error in Ht. destruct Ht as [i Hi].
    eapply Hs; eauto. eapply max_outs_some; eauto.
  - eapply (Loop len); [auto|intros; eauto|exact H|exact Hs].
Qed.

(* ---------- completeness ---------- *)
Hypothesis NE : nonempty_decs g.

(* n can already be completed as far as its own outgoing distances tell *)
Definition ready (lv : amap) (n : nat) : Prop :=
  is_dec g n = true /\
  if is_all g n
  then forall i t, nth_error (outs_of g n) i = Some t -> lv n i <> None
  else exists i t, nth_error (outs_of g n) i = Some t /\ lv n i <> None.

Definition ins_fin (lv : amap) (n : nat) : Prop :=
  forall s i, In (s, i) (ins_of g n) -> lv s i <> None.

Definition InvC (lv : amap) (n : nat) : Prop := ready lv n -> ins_fin lv n.

Lemma ready_mono lv lv' n : mono lv lv' -> ready lv n -> ready lv' n.
Proof.
  intros M [D R]. split; auto. destruct (is_all g n).
  - intros i t N. apply M. eauto.
  - destruct R as (i & t & N & F). exists i, t. auto.
Qed.

Lemma ins_fin_mono lv lv' n : mono lv lv' -> ins_fin lv n -> ins_fin lv' n.
Proof. intros M I s i H. apply M. auto. Qed.

(* updating (s, i) cannot break the invariant of a node other than s *)
Lemma InvC_aupd lv s i L m : m <> s -> InvC lv m -> InvC (aupd lv s i (Some L)) m.
Proof.
  intros Ne I R. eapply ins_fin_mono; [apply mono_aupd|]. apply I.
  destruct R as [D R]. split; auto. destruct (is_all g m).
  - intros i' t N. specialize (R i' t N). rewrite aupd_other in R by congruence. exact R.
  - destruct R as (i' & t & N & F). exists i', t. split; auto.
    rewrite aupd_other in F by congruence. exact F.
Qed.

Lemma ab_complete : forall f lv n len lv' (P : nat -> Prop),
  ab f g lv n len = Ok lv' ->
  (forall m, ~ P m -> m <> n -> InvC lv m) ->
  mono lv lv' /\ (forall m, ~ P m -> InvC lv' m) /\ (is_all g n = false -> ins_fin lv' n).
Proof.
  induction f as [|f IH]; intros lv n len lv' P H Pre; cbn [ab] in H; [discriminate|].
  assert (Loop : forall L l lv0 lv1,
            foldM (fun lv '(s, idx) =>
                     if idx <? length (outs_of g s) then
                       if dist_lt (Some L) (lv s idx)
                       then ab f g (aupd lv s idx (Some L)) s (S L)
                       else Ok lv
                     else PyErr EIndexError) l lv0 = Ok lv1 ->
            (forall m, ~ P m -> m <> n -> InvC lv0 m) ->
            mono lv0 lv1 /\ (forall m, ~ P m -> m <> n -> InvC lv1 m) /\
            (forall s i, In (s, i) l -> lv1 s i <> None)).
  { intros L. induction l as [|[s idx] l IHl]; intros lv0 lv1 F I0; cbn [foldM bind] in F.
    - inversion F; subst. split; [apply mono_refl|]. split; auto.
    - destruct (idx <? length (outs_of g s)); [|discriminate].
      destruct (dist_lt (Some L) (lv0 s idx)) eqn:E.
      + destruct (ab f g (aupd lv0 s idx (Some L)) s (S L)) as [lv2| | |] eqn:E2; cbn [foldM bind] in F; try discriminate.
        destruct (IH _ _ _ _ (fun m => P m \/ m = n) E2) as (M2 & I2 & _).
        { intros m NP Ns. apply InvC_aupd; auto. }
        destruct (IHl _ _ F) as (M3 & I3 & F3).
        { intros m NP Nn. apply I2. tauto. }
        split; [|split; auto].
        * eapply mono_trans; [apply mono_aupd|]. eapply mono_trans; eauto.
        * intros s' i' [Eq|Hin]; auto. inversion Eq; subst s' i'.
          apply M3. apply M2. rewrite aupd_same. discriminate.
      + cbn [foldM bind] in F. destruct (IHl _ _ F I0) as (M3 & I3 & F3). split; auto. split; auto.
        intros s' i' [Eq|Hin]; auto. inversion Eq; subst s' i'.
        apply M3. eapply dist_lt_none_r; eauto. }
  assert (Fin : forall L lv1,
            foldM (fun lv '(s, idx) =>
                     if idx <? length (outs_of g s) then
                       if dist_lt (Some L) (lv s idx)
                       then ab f g (aupd lv s idx (Some L)) s (S L)
                       else Ok lv
                     else PyErr EIndexError) (ins_of g n) lv = Ok lv1 ->
            mono lv lv1 /\ (forall m, ~ P m -> InvC lv1 m) /\ (is_all g n = false -> ins_fin lv1 n)).
  { intros L lv1 F. destruct (Loop L _ _ _ F Pre) as (M & I & Fi). split; auto. split.
    - intros m NP. destruct (Nat.eq_dec m n) as [->|Ne]; auto. intros _. exact Fi.
    - intros _. exact Fi. }
  destruct (is_all g n) eqn:A.
  - destruct (outs_of g n) as [|o0 os] eqn:O; [discriminate|].
    destruct (max_outs g lv n) as [L|] eqn:M.
    + destruct (Fin L _ H) as (M1 & I1 & _). split; auto. split; auto. discriminate.
    + inversion H; subst lv'. split; [apply mono_refl|]. split; [|discriminate].
      intros m NP. destruct (Nat.eq_dec m n) as [->|Ne]; auto.
      intros [D R]. rewrite A in R. exfalso.
      apply max_outs_none in M. destruct M as (i & Li & Ni).
      destruct (nth_error (outs_of g n) i) as [t|] eqn:N.
      * apply (R i t N Ni).
      * apply nth_error_None in N. lia.
  - apply (Fin len _ H).
Qed.

End Analysis.

(* ---------- items() is complete: every reachable node is yielded ---------- *)
Section Items.
Variable g : graph.

Definition closedP (P : nat -> Prop) (vis : list nat) : Prop :=
  forall x, In x vis -> ~ P x -> is_dec g x = true -> forall t, In t (outs_of g x) -> In t vis.

Lemma dfs_closed : forall f vis n vis' (P : nat -> Prop),
  dfs f g vis n = Ok vis' -> closedP P vis ->
  (forall x, In x vis -> In x vis') /\ In n vis' /\ closedP P vis'.
Proof.
  induction f as [|f IH]; intros vis n vis' P H C; simpl in H; [discriminate|].
  destruct (mem n vis) eqn:M.
  - inversion H; subst. split; auto. split; auto. apply mem_In. exact M.
  - set (P' := fun m => P m \/ m = n).
    assert (C0 : closedP P' (vis ++ [n])).
    { intros x Hx NP D t Ht. apply in_or_app. left.
      apply in_app_or in Hx. destruct Hx as [Hx|[<-|[]]].
      - eapply C; eauto. intros HP. apply NP. left. exact HP.
      - exfalso. apply NP. right. reflexivity. }
    destruct (is_dec g n) eqn:D.
    + assert (G : forall l visa visb,
                 foldM (dfs f g) l visa = Ok visb -> closedP P' visa ->
                 (forall x, In x visa -> In x visb) /\ (forall t, In t l -> In t visb) /\ closedP P' visb).
      { induction l as [|t l IHl]; intros visa visb F Ca; simpl in F.
        - inversion F; subst. split; auto. split; auto. intros t [].
        - destruct (dfs f g visa t) as [v| | |] eqn:E; simpl in F; try discriminate.
          destruct (IH _ _ _ _ E Ca) as (S1 & T1 & C1).
          destruct (IHl _ _ F C1) as (S2 & T2 & C2).
          split; auto. split; auto. intros x [<-|Hx]; auto. }
      destruct (G _ _ _ H C0) as (S & T & C1).
      split; [intros x Hx; apply S; apply in_or_app; auto|].
      split; [apply S; apply in_or_app; right; left; reflexivity|].
      intros x Hx NP Dx t Ht. destruct (Nat.eq_dec x n) as [->|Ne]; auto.
      eapply C1; eauto. intros [HP|HE]; auto.
    + inversion H; subst.
      split; [intros x Hx; apply in_or_app; auto|].
      split; [apply in_or_app; right; left; reflexivity|].
      intros x Hx NP Dx t Ht. eapply C0; eauto.
      intros [HP|HE]; auto. subst x. congruence.
Qed.

Lemma items_complete (IO : ins_ok g) (OO : outs_ok g) f root its :
  items f g root = Ok its -> forall x, reach g root x -> In x its.
Proof.
  intros H. unfold items in H.
  destruct (dfs_closed _ _ _ _ (fun _ => False) H) as (_ & R & C); [intros x []|].
  intros x Hx. induction Hx as [|s i t Rs IHs N]; auto.
  pose proof (OO _ _ _ N) as Hin. destruct (IO _ _ _ Hin) as [D _].
  eapply C; eauto. eapply nth_error_In; eauto.
Qed.

End Items.

(* ---------- the analysis phase of generate_paths ---------- *)
Section Analyse.
Variable V : variant.
Variable g : graph.
Variable root : nat.
Hypothesis W : wf g root.

Lemma complete_of_inv lv :
  (forall m, InvC g lv m) ->
  (forall l, l < length g -> leaf_is g true l = true -> ins_fin g lv l) ->
  complete g lv.
Proof.
  destruct W as [[IO OO] NR NE RE RI R0]. intros I L s i t N Vt. revert s i N.
  induction Vt as [t Lt|t D A C IHc|t c D A Hc Vc IHc]; intros s i N.
  - pose proof (OO _ _ _ N) as Hin.
    assert (Lt' : t < length g).
    { destruct (Nat.lt_ge_cases t (length g)) as [Lt'|Ge]; auto.
      unfold ins_of in Hin. rewrite getn_out in Hin by exact Ge. contradiction. }
    exact (L t Lt' Lt s i Hin).
  - refine (I t _ s i (OO _ _ _ N)). split; auto. rewrite A.
    intros i' t' N'. eapply IHc; eauto. eapply nth_error_In; eauto.
  - refine (I t _ s i (OO _ _ _ N)). split; auto. rewrite A.
    apply In_nth_error in Hc. destruct Hc as [i' N']. exists i', c. split; auto.
Qed.

(* a map that carries no distance on any node of the table (fresh graph, or after the reset) *)
Definition blank (lv : amap) : Prop := forall s i, s < length g -> lv s i = None.

Lemma InvC_blank lv m : blank lv -> InvC g lv m.
Proof.
  destruct W as [[IO OO] NR NE RE RI R0].
  intros B [D R]. exfalso. pose proof (is_dec_lt _ _ D) as L. destruct (is_all g m).
  - destruct (outs_of g m) as [|o os] eqn:O; [apply (NE m D O)|].
    apply (R 0 o); [reflexivity|apply B; exact L].
  - destruct R as (i & t & N & F). apply F. apply B. exact L.
Qed.

Lemma sound_blank lv : blank lv -> sound g lv.
Proof.
  intros B s i t N F. exfalso. apply F. apply B.
  destruct (Nat.lt_ge_cases s (length g)) as [L|L]; auto.
  unfold outs_of in N. rewrite getn_out in N by exact L. destruct i; discriminate.
Qed.

Lemma blank_empty : blank aempty.
Proof. intros s i _. reflexivity. Qed.

Lemma blank_reset its lv : (forall x, x < length g -> In x its) -> blank (areset its lv).
Proof.
  intros H s i L. unfold areset. destruct (mem s its) eqn:M; auto.
  apply H in L. apply mem_In in L. congruence.
Qed.

Lemma ab_fold_spec fuel : forall leaves lv0 lv1,
  foldM (fun lv l => ab fuel g lv l 0) leaves lv0 = Ok lv1 ->
  (forall l, In l leaves -> leaf_is g true l = true) ->
  sound g lv0 -> (forall m, InvC g lv0 m) ->
  sound g lv1 /\ (forall m, InvC g lv1 m) /\ mono lv0 lv1 /\
  (forall l, In l leaves -> ins_fin g lv1 l).
Proof.
  destruct W as [[IO OO] NR NE RE RI R0].
  induction leaves as [|l ls IH]; intros lv0 lv1 F HL S0 I0; simpl in F.
  - inversion F; subst. repeat split; auto. apply mono_refl. intros l [].
  - destruct (ab fuel g lv0 l 0) as [lv2| | |] eqn:E; simpl in F; try discriminate.
    assert (Ll : leaf_is g true l = true) by (apply HL; left; reflexivity).
    assert (Al : is_all g l = false).
    { unfold leaf_is, is_all in *. destruct (kind_of g l); auto; discriminate. }
    pose proof (ab_sound g IO _ _ _ _ _ E S0 (fun _ => VC_leaf g l Ll)) as S2.
    destruct (ab_complete g _ _ _ _ _ (fun _ => False) E) as (M2 & I2 & F2); [intros; apply I0|].
    assert (HL' : forall l0, In l0 ls -> leaf_is g true l0 = true) by (intros; apply HL; right; auto).
    assert (I2' : forall m, InvC g lv2 m) by (intros m; apply I2; tauto).
    destruct (IH _ _ F HL' S2 I2') as (S3 & I3 & M3 & F3).
    repeat split; auto.
    + eapply mono_trans; eauto.
    + intros l' [<-|Hl]; auto. eapply ins_fin_mono; eauto.
Qed.

Theorem analyse_spec fuel lr0 lv0 a :
  (fix_reset V = true \/ blank lv0) ->
  analyse V fuel g root lr0 lv0 = Ok a ->
  sound g (a_lv a) /\ complete g (a_lv a) /\
  (forall x, In x (a_valid a ++ a_invalid a) -> reach g root x /\ is_leaf g x = true) /\
  (forall x, x < length g -> is_leaf g x = true -> In x (a_valid a ++ a_invalid a)).
Proof.
  pose proof W as W'. destruct W' as [[IO OO] NR NE RE RI R0].
  unfold analyse. intros HB H.
  destruct (items fuel g root) as [its| | |] eqn:I; simpl in H; try discriminate.
  set (lv1 := if fix_reset V then areset its lv0 else lv0) in *.
  assert (B1 : blank lv1).
  { unfold lv1. destruct (fix_reset V).
    - apply blank_reset. intros x Lx. eapply items_complete; eauto.
    - destruct HB as [HB|HB]; [discriminate|exact HB]. }
  destruct (af V fuel g _ root 0) as [lr| | |] eqn:A; simpl in H; try discriminate.
  destruct (foldM _ _ lv1) as [lv| | |] eqn:F; simpl in H; try discriminate.
  inversion H; subst a; simpl. clear H.
  destruct (ab_fold_spec fuel _ _ _ F) as (S1 & I1 & M1 & F1).
  { intros l Hl. apply filter_In in Hl. tauto. }
  { apply sound_blank. exact B1. }
  { intros m. apply InvC_blank. exact B1. }
  split; auto. split; [|split].
  - apply complete_of_inv; auto. intros l Ll Vl. apply F1. apply filter_In. split; auto.
    eapply items_complete; eauto.
  - intros x Hx. apply in_app_or in Hx. destruct Hx as [Hx|Hx]; apply filter_In in Hx; destruct Hx as [Hx Lx].
    + split; [eapply items_reach; eauto|]. unfold leaf_is, is_leaf in *. destruct (kind_of g x); auto.
    + split; [eapply items_reach; eauto|]. unfold leaf_is, is_leaf in *. destruct (kind_of g x); auto.
  - intros x Lx Hx. apply in_or_app.
    assert (In x its) by (eapply items_complete; eauto).
    unfold is_leaf in Hx. destruct (kind_of g x) as [[]| |] eqn:K; try discriminate.
    + left. apply filter_In. split; auto. unfold leaf_is. rewrite K. reflexivity.
    + right. apply filter_In. split; auto. unfold leaf_is. rewrite K. reflexivity.
Qed.

End Analyse.

(* ErrClass.v -- the regex and grammar front ends can only fail with the library's own exceptions (or run out of
   recursion depth): no Python exception is reachable from any expression of the dialect / any grammar (C17). *)
From Fences Require Import Regex Grammar GraphOps RegexLang GrammarLang.

Definition own {A} (r : res A) : Prop := match r with PyErr _ => False | _ => True end.

Lemma own_bind {A B} (r : res A) (f : A -> res B) : own r -> (forall a, r = Ok a -> own (f a)) -> own (bind r f).
Proof. destruct r; cbn; auto. Qed.

Lemma own_foldM {A B} (F : A -> B -> res A) : forall l a, (forall a x, In x l -> own (F a x)) -> own (foldM F l a).
Proof.
  induction l as [|x l IH]; intros a H; cbn [foldM]; [exact I|].
  apply own_bind; [apply H; left; reflexivity|]. intros a' _. apply IH. intros; apply H; right; auto.
Qed.

(* optimize() has no failing operation *)
Lemma opt_own : forall f g vis n, own (opt f g vis n).
Proof.
  induction f as [|f IH]; intros g vis n; cbn [opt]; [exact I|].
  destruct (mem n vis); [exact I|]. apply own_foldM. intros [g' vis'] t _. destruct (is_dec g' t); [apply IH|exact I].
Qed.
Lemma optimize_own fuel g root : own (optimize fuel g root).
Proof.
  unfold optimize. destruct (is_dec g root); [|exact I]. apply own_bind; [apply opt_own|]. intros [g' v] _. exact I.
Qed.

Lemma with_quant_own q it st : own (with_quant q it st).
Proof.
  unfold with_quant. destruct q as [q|]; [|exact I]. apply own_bind.
  - destruct q as [| | |n [[m|]|]]; cbn [rep_of]; try exact I. destruct (m <? n); exact I.
  - intros rp _. destruct (noop_dec false st). exact I.
Qed.

Lemma conv_citem_own ci st : own (conv_citem ci st).
Proof.
  unfold conv_citem. destruct (noop_dec false st) as [st1 r0]. destruct ci as [c|a b].
  - destruct (char_leaf c st1). exact I.
  - destruct (b <? a); [exact I|]. destruct (noop_dec false st1) as [st2 rr]. destruct (char_leaf a st2) as [st3 l1].
    destruct (char_leaf b (add_t rr l1 st3)). exact I.
Qed.

Lemma add_children_own {A} (B : A -> bst -> res (bst * nat)) parent : forall l st,
  (forall a st, In a l -> own (B a st)) -> own (add_children B parent l st).
Proof.
  induction l as [|a r IH]; intros st H; cbn [add_children]; [exact I|].
  apply own_bind; [apply H; left; reflexivity|]. intros [st1 c] _. apply IH. intros; apply H; right; auto.
Qed.

Lemma atom_own i : (forall r st, (exists nc q, i = IGroup nc r q) -> own (conv_expr r st)) -> forall st, own (atom i st).
Proof.
  intros HG st. destruct i as [c q|c0 cs q|nc r q]; cbn [atom].
  - destruct (noop_dec false st) as [st1 mi]. destruct (char_leaf c st1). exact I.
  - destruct (noop_dec false st) as [st1 mi]. destruct (noop_dec false st1) as [st2 mcc]. destruct (noop_dec false st2) as [st3 cg].
    apply own_bind; [|intros; exact I]. rewrite conv_citems_eq. apply add_children_own. intros; apply conv_citem_own.
  - apply HG. eauto.
Qed.

Lemma conv_item_own i : (forall st, own (atom i st)) -> forall st, own (conv_item i st).
Proof.
  intros HA st. rewrite conv_item_eq. destruct (noop_dec false st) as [st1 wrap].
  apply own_bind; [|intros [st5 inner] _; exact I].
  apply own_bind; [apply HA|]. intros [st4 it] _. apply with_quant_own.
Qed.

Theorem conv_expr_own : forall r st, own (conv_expr r st).
Proof.
  apply (regex_mind (fun r => forall st, own (conv_expr r st))
                    (fun s => forall i, In i (items_of s) -> forall st, own (conv_item i st))
                    (fun i => forall st, own (conv_item i st))).
  - intros s Hs st. rewrite conv_expr_eq. destruct (noop_dec false st) as [st1 root].
    apply own_bind; [|intros; exact I]. apply add_children_own. intros a st0 [<-|[]]. cbn [fst].
    rewrite conv_sub_eq. destruct (noop_dec true st0) as [s1 r1]. apply own_bind; [|intros; exact I].
    apply add_children_own. intros i st2 Hi. apply Hs. exact Hi.
  - intros s Hs r Hr st. rewrite conv_expr_eq. destruct (noop_dec false st) as [st1 root].
    apply own_bind; [|intros; exact I]. apply add_children_own. intros a st0 [<-|[<-|[]]]; cbn [fst]; [|apply Hr].
    rewrite conv_sub_eq. destruct (noop_dec true st0) as [s1 r1]. apply own_bind; [|intros; exact I].
    apply add_children_own. intros i st2 Hi. apply Hs. exact Hi.
  - intros i Hi j [<-|[]]. exact Hi.
  - intros i Hi s Hs j [<-|Hj]; auto.
  - intros c q. apply conv_item_own. apply atom_own. intros r st (nc & q' & X). discriminate.
  - intros c0 cs q. apply conv_item_own. apply atom_own. intros r st (nc & q' & X). discriminate.
  - intros nc r Hr q. apply conv_item_own. apply atom_own. intros r' st (nc' & q' & X). inversion X; subst. apply Hr.
Qed.

Theorem parse_regex_own fuel r : own (parse_regex fuel r).
Proof.
  unfold parse_regex. destruct (noop_dec true bempty) as [st start].
  apply own_bind; [apply conv_expr_own|]. intros [st1 e] _.
  apply own_bind; [apply optimize_own|]. intros g _.
  destruct (new_node _ _ _) as [st4 ci]. destruct (noop_dec true st4) as [st5 sr].
  destruct (new_node (KLeaf true) POutput _) as [st8 fo]. exact I.
Qed.

(* grammars: the only failing step is resolve(), which raises the library's exception for an unknown or doubly
   defined name *)
Lemma deref_own : forall f g t n, own (deref f g t n).
Proof.
  induction f as [|f IH]; intros g t n; cbn [deref]; [exact I|].
  destruct (kind_of g n); try exact I. destruct (tbl_find (Some name) t); [apply IH|exact I].
Qed.

Lemma dfs_own : forall f g vis n, own (dfs f g vis n).
Proof.
  induction f as [|f IH]; intros g vis n; cbn [dfs]; [exact I|].
  destruct (mem n vis); [exact I|]. destruct (is_dec g n); [|exact I]. apply own_foldM. intros; apply IH.
Qed.

Lemma tbl_insert_own g t n : own (tbl_insert g t n).
Proof. unfold tbl_insert. destruct (_ && _); exact I. Qed.

Lemma resolve_go_own t : forall f g vis n, own (resolve_go f g t vis n).
Proof.
  induction f as [|f IH]; intros g vis n; cbn [resolve_go]; [exact I|].
  destruct (mem n vis); [exact I|]. destruct (is_dec g n); [|exact I].
  apply own_bind.
  - apply own_foldM. intros g0 [idx tgt] _. destruct (is_ref g0 tgt); [|exact I].
    apply own_bind; [apply deref_own|intros; exact I].
  - intros g1 _. apply own_foldM. intros [g2 vis2] tgt _. apply IH.
Qed.

Lemma resolve_own fuel g root extra : own (resolve fuel g root extra).
Proof.
  unfold resolve. apply own_bind.
  - apply own_foldM. intros t nd _. apply own_bind; [apply dfs_own|]. intros its _. apply own_foldM. intros; apply tbl_insert_own.
  - intros t0 _. apply own_bind; [apply dfs_own|]. intros its _.
    apply own_bind; [apply own_foldM; intros; apply tbl_insert_own|]. intros t _.
    apply own_bind; [apply deref_own|]. intros r _.
    apply own_bind; [apply resolve_go_own|]. intros [g' v] _. exact I.
Qed.

Theorem parse_grammar_own fuel G start : own (parse_grammar fuel G start).
Proof.
  unfold parse_grammar. destruct (fold_left _ G (bempty, [])) as [st rules].
  destruct (new_node (KDec true false) PInput st) as [st1 root]. destruct (new_node (KRef start) PNone st1) as [st2 ref].
  destruct (new_node (KLeaf true) POutput (add_t root ref st2)) as [st4 fo].
  apply own_bind; [apply resolve_own|]. intros [gr r] _.
  apply own_bind; [apply optimize_own|]. intros; exact I.
Qed.

(* GraphFuel.v -- more fuel never hurts: a computation of the model that ends with a result (or with a
   Python exception) ends the same way with any larger recursion budget. *)
From Fences Require Import GraphSpec GraphLinks GraphExec.

Definition settled {A} (r : res A) : Prop := r <> OutOfFuel.

Lemma foldM_mono {A B} (F1 F2 : A -> B -> res A) :
  forall l a r, (forall a x r, In x l -> F1 a x = r -> settled r -> F2 a x = r) ->
  foldM F1 l a = r -> settled r -> foldM F2 l a = r.
Proof.
  induction l as [|x l IH]; intros a r H E S; simpl in *; auto.
  destruct (F1 a x) as [a'| | |] eqn:E1; simpl in E.
  - rewrite (H a x (Ok a') (or_introl eq_refl) E1 ltac:(discriminate)). simpl.
    apply IH; auto; intros; eapply H; eauto.
  - rewrite (H a x _ (or_introl eq_refl) E1 ltac:(discriminate)). simpl. exact E.
  - rewrite (H a x _ (or_introl eq_refl) E1 ltac:(discriminate)). simpl. exact E.
  - subst r. exfalso. apply S. reflexivity.
Qed.

Lemma dfs_mono g : forall f f' vis n r, f <= f' -> dfs f g vis n = r -> settled r -> dfs f' g vis n = r.
Proof.
  induction f as [|f IH]; intros f' vis n r L E Hs; cbn [dfs af ab gen backward forward] in E; [subst; exfalso; apply Hs; reflexivity|].
  destruct f' as [|f']; [lia|]. cbn [dfs af ab gen backward forward].
  destruct (mem n vis); auto. destruct (is_dec g n); auto.
  eapply foldM_mono; [|exact E|exact Hs]. intros a x r' _ E' Hs'. eapply IH; eauto. lia.
Qed.

Section WithV.
Variable V : variant.

Lemma af_mono g : forall f f' lr n len r, f <= f' -> af V f g lr n len = r -> settled r -> af V f' g lr n len = r.
Proof.
  induction f as [|f IH]; intros f' lr n len r L E Hs; cbn [dfs af ab gen backward forward] in E; [subst; exfalso; apply Hs; reflexivity|].
  destruct f' as [|f']; [lia|]. cbn [dfs af ab gen backward forward].
  destruct (is_dec g n); auto.
  eapply foldM_mono; [|exact E|exact Hs]. intros a [idx t] r' _ E' Hs'.
  destruct (index_where _ _ _) as [pos|]; auto.
  destruct (dist_lt _ _); auto. eapply IH; eauto. lia.
Qed.

Lemma ab_mono g : forall f f' lv n len r, f <= f' -> ab f g lv n len = r -> settled r -> ab f' g lv n len = r.
Proof.
  induction f as [|f IH]; intros f' lv n len r L E Hs; cbn [dfs af ab gen backward forward] in E; [subst; exfalso; apply Hs; reflexivity|].
  destruct f' as [|f']; [lia|]. cbn [dfs af ab gen backward forward].
  assert (G : forall L0 lv0 r0,
     foldM (fun lv '(s, idx) => if idx <? length (outs_of g s) then
              if dist_lt (Some L0) (lv s idx) then ab f g (aupd lv s idx (Some L0)) s (S L0) else Ok lv
            else PyErr EIndexError) (ins_of g n) lv0 = r0 -> settled r0 ->
     foldM (fun lv '(s, idx) => if idx <? length (outs_of g s) then
              if dist_lt (Some L0) (lv s idx) then ab f' g (aupd lv s idx (Some L0)) s (S L0) else Ok lv
            else PyErr EIndexError) (ins_of g n) lv0 = r0).
  { intros L0 lv0 r0 E0 Hs0. eapply foldM_mono; [|exact E0|exact Hs0]. intros a [s idx] r' _ E' Hs'.
    destruct (idx <? _); auto. destruct (dist_lt _ _); auto. eapply IH; eauto. lia. }
  destruct (is_all g n).
  - destruct (outs_of g n); auto. destruct (max_outs g lv n); auto.
  - auto.
Qed.

Lemma gen_mono g lv : forall f f' n r, f <= f' -> gen V f g lv n = r -> settled r -> gen V f' g lv n = r.
Proof.
  induction f as [|f IH]; intros f' n r L E Hs; cbn [dfs af ab gen backward forward] in E; [subst; exfalso; apply Hs; reflexivity|].
  destruct f' as [|f']; [lia|]. cbn [dfs af ab gen backward forward].
  destruct (kind_of g n) as [v|all noop|name]; auto.
  destruct (outs_of g n) as [|o0 os]; auto.
  destruct all.
  - eapply foldM_mono; [|exact E|exact Hs]. intros [[p vs] b] x r' _ E' Hs'.
    destruct (gen V f g lv x) as [[[p' vs'] b']| | |] eqn:E1; cbn [bind] in E'.
    + rewrite (IH f' x _ ltac:(lia) E1 ltac:(discriminate)). cbn [bind]. exact E'.
    + rewrite (IH f' x _ ltac:(lia) E1 ltac:(discriminate)). cbn [bind]. exact E'.
    + rewrite (IH f' x _ ltac:(lia) E1 ltac:(discriminate)). cbn [bind]. exact E'.
    + subst r'. exfalso. apply Hs'. reflexivity.
  - destruct (match argmin _ with Some i => (i, true) | None => (0, false) end) as [idx b0].
    destruct (gen V f g lv (nth idx (o0 :: os) o0)) as [[[p vs] b]| | |] eqn:E1; cbn [bind] in E.
    + rewrite (IH f' _ _ ltac:(lia) E1 ltac:(discriminate)). cbn [bind]. exact E.
    + rewrite (IH f' _ _ ltac:(lia) E1 ltac:(discriminate)). cbn [bind]. exact E.
    + rewrite (IH f' _ _ ltac:(lia) E1 ltac:(discriminate)). cbn [bind]. exact E.
    + subst r. exfalso. apply Hs. reflexivity.
Qed.

Lemma backward_mono g lr : forall f f' n r, f <= f' -> backward f g lr n = r -> settled r -> backward f' g lr n = r.
Proof.
  induction f as [|f IH]; intros f' n r L E Hs; cbn [dfs af ab gen backward forward] in E; [subst; exfalso; apply Hs; reflexivity|].
  destruct f' as [|f']; [lia|]. cbn [dfs af ab gen backward forward].
  destruct (ins_of g n) as [|r0 rs]; auto.
  destruct (argmin _) as [pos|]; auto.
  destruct (nth pos (r0 :: rs) r0) as [s idx].
  destruct (backward f g lr s) as [[[rr bp] vs]| | |] eqn:E1; cbn [bind] in E.
  - rewrite (IH f' _ _ ltac:(lia) E1 ltac:(discriminate)). cbn [bind]. exact E.
  - rewrite (IH f' _ _ ltac:(lia) E1 ltac:(discriminate)). cbn [bind]. exact E.
  - rewrite (IH f' _ _ ltac:(lia) E1 ltac:(discriminate)). cbn [bind]. exact E.
  - subst r. exfalso. apply Hs. reflexivity.
Qed.

Lemma forward_mono g lv : forall f f' n bp r, f <= f' -> forward V f g lv n bp = r -> settled r -> forward V f' g lv n bp = r.
Proof.
  induction f as [|f IH]; intros f' n bp r L E Hs; cbn [dfs af ab gen backward forward] in E; [subst; exfalso; apply Hs; reflexivity|].
  destruct f' as [|f']; [lia|]. cbn [dfs af ab gen backward forward].
  destruct bp as [|i bp']; auto.
  destruct (kind_of g n) as [v|[] noop|name]; auto.
  - eapply foldM_mono; [|exact E|exact Hs]. intros [[[p vs] b] rest] [idx x] r' _ E' Hs'.
    destruct (idx =? i).
    + destruct (forward V f g lv x rest) as [[[[p' vs'] b'] rest']| | |] eqn:E1; cbn [bind] in E'.
      * rewrite (IH f' _ _ _ ltac:(lia) E1 ltac:(discriminate)). cbn [bind]. exact E'.
      * rewrite (IH f' _ _ _ ltac:(lia) E1 ltac:(discriminate)). cbn [bind]. exact E'.
      * rewrite (IH f' _ _ _ ltac:(lia) E1 ltac:(discriminate)). cbn [bind]. exact E'.
      * subst r'. exfalso. apply Hs'. reflexivity.
    + destruct (gen V f g lv x) as [[[p' vs'] b']| | |] eqn:E1; cbn [bind] in E'.
      * rewrite (gen_mono g lv f f' _ _ ltac:(lia) E1 ltac:(discriminate)). cbn [bind]. exact E'.
      * rewrite (gen_mono g lv f f' _ _ ltac:(lia) E1 ltac:(discriminate)). cbn [bind]. exact E'.
      * rewrite (gen_mono g lv f f' _ _ ltac:(lia) E1 ltac:(discriminate)). cbn [bind]. exact E'.
      * subst r'. exfalso. apply Hs'. reflexivity.
  - destruct (nth_error (outs_of g n) i) as [t|]; auto.
    destruct (forward V f g lv t bp') as [[[[p vs] b] rest]| | |] eqn:E1; cbn [bind] in E.
    + rewrite (IH f' _ _ _ ltac:(lia) E1 ltac:(discriminate)). cbn [bind]. exact E.
    + rewrite (IH f' _ _ _ ltac:(lia) E1 ltac:(discriminate)). cbn [bind]. exact E.
    + rewrite (IH f' _ _ _ ltac:(lia) E1 ltac:(discriminate)). cbn [bind]. exact E.
    + subst r. exfalso. apply Hs. reflexivity.
Qed.

End WithV.

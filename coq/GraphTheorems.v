(* GraphTheorems.v -- the statements of C03, C04 (exactness) and C05 for every well-formed graph,
   assembled from GraphExec (paths vs execution, work list) and GraphAnalysis (annotations). *)
From Fences Require Import GraphSpec GraphLinks GraphExec GraphAnalysis.

Lemma dfs_nodup g : forall f vis n vis', dfs f g vis n = Ok vis' -> NoDup vis -> NoDup vis'.
Proof.
  induction f as [|f IH]; intros vis n vis' H N; simpl in H; [discriminate|].
  destruct (mem n vis) eqn:M; [inversion H; subst; auto|].
  assert (N' : NoDup (vis ++ [n])).
  { replace (vis ++ [n]) with (rev (n :: rev vis)) by (simpl; rewrite rev_involutive; reflexivity).
    apply NoDup_rev. constructor; [|apply NoDup_rev; exact N].
    intros Hin. apply in_rev in Hin. apply mem_In in Hin. congruence. }
  destruct (is_dec g n); [|inversion H; subst; auto].
  revert H N'. generalize (vis ++ [n]). generalize (outs_of g n).
  induction l as [|t l IHl]; intros v F Nv; simpl in F; [inversion F; subst; auto|].
  destruct (dfs f g v t) as [v'| | |] eqn:E; simpl in F; try discriminate.
  eapply IHl; eauto.
Qed.

Section Top.
Variable V : variant.
Variable g : graph.
Variable root : nat.
Hypothesis W : wf g root.
Variables (fuel : nat) (lr0 lv0 : amap) (a : analysis) (es : list entry) (st : res unit).
(* either the code resets the annotations itself (after the fix), or the graph is fresh *)
Hypothesis Fresh : fix_reset V = true \/ forall s i, s < length g -> lv0 s i = None.
Hypothesis GP : generate_paths V fuel g root lr0 lv0 = Ok (a, (es, st)).

Lemma gp_inv :
  sound g (a_lv a) /\ complete g (a_lv a) /\
  loop_post V g root fuel (a_lv a) (a_valid a ++ a_invalid a) es st /\
  (forall x, x < length g -> is_leaf g x = true -> In x (a_valid a ++ a_invalid a)).
Proof.
  unfold generate_paths in GP.
  destruct (analyse V fuel g root lr0 lv0) as [a'| | |] eqn:A; simpl in GP; try discriminate.
  inversion GP; subst a'. clear GP.
  destruct (analyse_spec V g root W fuel lr0 lv0 a Fresh A) as (S & C & T & T').
  split; auto. split; auto. split; auto.
  eapply gp_loop_spec; eauto.
Qed.

Lemma exec_trace e tr : exec fuel g root (epath e) = Ok (tr, []) -> trace_of g root fuel e = tr.
Proof. intros H. unfold trace_of. rewrite H. reflexivity. Qed.

(* C04: every generated path executes from the root, is consumed exactly, and applies its target *)
Theorem paths_exact : forall e, In e es ->
  exists tr, exec fuel g root (epath e) = Ok (tr, []) /\ In (etarget e) tr /\
             is_leaf g (etarget e) = true.
Proof.
  intros e He. destruct gp_inv as (_ & _ & (P1 & _) & _).
  destruct (P1 e He) as [[(tr & X & I) L _ _ _] _]. eauto.
Qed.

(* C03, label *)
Theorem label_agrees : fix_leaf V = true -> forall e, In e es ->
  exists tr, exec fuel g root (epath e) = Ok (tr, []) /\
             (evalid e = true <-> invalid_leaves g tr = []).
Proof.
  intros FL e He. destruct gp_inv as (S & C & (P1 & _) & _).
  destruct (P1 e He) as [[(tr & X & I) L LS LC _] _].
  exists tr. split; auto. rewrite (exec_trace e tr X) in *. split; auto.
Qed.

(* C03, one fault per invalid sample *)
Theorem one_fault : forall e, In e es ->
  exists tr bp l, exec fuel g root (epath e) = Ok (tr, []) /\
    spine g root bp l (etarget e) /\
    (sibs_VC g root bp -> forall x, In x (invalid_leaves g tr) -> x = etarget e).
Proof.
  intros e He. destruct gp_inv as (S & C & (P1 & _) & _).
  destruct (P1 e He) as [[(tr & X & I) L _ _ OF] _].
  destruct (OF S C) as (bp & l & Sp & F).
  exists tr, bp, l. rewrite (exec_trace e tr X) in *. auto.
Qed.

(* C05: coverage, freshness, count *)
Theorem leaves_covered : st = Ok tt ->
  forall x, x < length g -> is_leaf g x = true ->
  exists e tr, In e es /\ exec fuel g root (epath e) = Ok (tr, []) /\ In x tr.
Proof.
  intros St x Lx Hx. destruct gp_inv as (_ & _ & (P1 & _ & P3 & _) & T).
  destruct (P3 St x (T x Lx Hx)) as (e & He & Hin).
  destruct (P1 e He) as [[(tr & X & I) _ _ _ _] _].
  exists e, tr. rewrite (exec_trace e tr X) in Hin. auto.
Qed.

Theorem paths_fresh : forall es1 e es2, es = es1 ++ e :: es2 ->
  is_leaf g (etarget e) = true /\
  (exists tr, exec fuel g root (epath e) = Ok (tr, []) /\ In (etarget e) tr) /\
  forall e' tr', In e' es1 -> exec fuel g root (epath e') = Ok (tr', []) -> ~ In (etarget e) tr'.
Proof.
  intros es1 e es2 E. destruct gp_inv as (_ & _ & (P1 & P2 & _) & _).
  assert (He : In e es) by (rewrite E; apply in_or_app; right; left; reflexivity).
  destruct (P1 e He) as [[X L _ _ _] _]. split; auto. split; auto.
  intros e' tr' He' X'. rewrite <- (exec_trace e' tr' X'). eapply P2; eauto.
Qed.

Theorem paths_count : exists its, items fuel g root = Ok its /\ NoDup its /\
  length es <= length (filter (is_leaf g) its).
Proof.
  destruct gp_inv as (_ & _ & (P1 & _ & _ & P4) & _).
  unfold generate_paths in GP.
  destruct (analyse V fuel g root lr0 lv0) as [a'| | |] eqn:A; simpl in GP; try discriminate.
  inversion GP; subst a'. clear GP.
  unfold analyse in A.
  destruct (items fuel g root) as [its| | |] eqn:I; simpl in A; try discriminate.
  destruct (af V fuel g _ root 0) as [lr| | |]; simpl in A; try discriminate.
  destruct (foldM _ _ _) as [lv| | |]; simpl in A; try discriminate.
  inversion A; subst a; simpl in *. clear A.
  exists its. split; auto. split.
  - unfold items in I. eapply dfs_nodup; eauto. constructor.
  - eapply Nat.le_trans; [exact P4|]. rewrite app_length.
    clear. induction its as [|x r IH]; simpl; auto.
    unfold leaf_is, is_leaf in *. destruct (kind_of g x) as [[]| |]; simpl; lia.
Qed.

End Top.

(* OpenApiProofs.v -- the sample cache is transparent (C18): with the repaired generate_all every
   cached entry equals what the JSON pipeline computes for its key and flag, so any call gives the
   result a fresh cache gives. *)
From Fences Require Import OpenApi.

Lemma tlookup_tset k' k s t : tlookup k' (tset k s t) = if k =? k' then Some s else tlookup k' t.
Proof.
  induction t as [|[k0 s0] r IH]; simpl.
  - reflexivity.
  - destruct (Nat.eqb_spec k0 k) as [->|N]; simpl.
    + destruct (Nat.eqb_spec k k'); reflexivity.
    + rewrite IH. destruct (Nat.eqb_spec k0 k') as [->|N2]; auto.
      destruct (Nat.eqb_spec k k'); congruence.
Qed.

Section Proofs.
Variable compute : key -> bool -> res samples.
Let V := mkOV true.

Definition Inv (c : cache) : Prop :=
  (forall k s, tlookup k (c_body c) = Some s -> compute k true = Ok s) /\
  (forall k s, tlookup k (c_other c) = Some s -> compute k false = Ok s).

Lemma Inv_empty : Inv empty_cache.
Proof. split; intros k s H; discriminate. Qed.

Lemma add_spec c k b : Inv c -> Inv (fst (add compute c k b)) /\ snd (add compute c k b) = compute k b.
Proof.
  intros [IB IO]. unfold add. destruct b.
  - destruct (tlookup k (c_body c)) as [s|] eqn:L.
    + simpl. split; [split; auto|]. symmetry; auto.
    + destruct (compute k true) as [s| | |] eqn:C; simpl;
        [|split; [split; auto|reflexivity]|split; [split; auto|reflexivity]|split; [split; auto|reflexivity]].
      split; [|reflexivity]. split; simpl; auto. intros k' s' H. rewrite tlookup_tset in H.
      destruct (Nat.eqb_spec k k') as [->|N]; auto. inversion H; subst. exact C.
  - destruct (tlookup k (c_other c)) as [s|] eqn:L.
    + simpl. split; [split; auto|]. symmetry; auto.
    + destruct (compute k false) as [s| | |] eqn:C; simpl;
        [|split; [split; auto|reflexivity]|split; [split; auto|reflexivity]|split; [split; auto|reflexivity]].
      split; [|reflexivity]. split; simpl; auto. intros k' s' H. rewrite tlookup_tset in H.
      destruct (Nat.eqb_spec k k') as [->|N]; auto. inversion H; subst. exact C.
Qed.

(* the same computations without any cache *)
Fixpoint ga_pure (ps : list param) (ov : list (nat * list sample)) (acc : plan) : res plan :=
  match ps with
  | [] => Ok acc
  | p :: r =>
    match compute (p_schema p) false with
    | Ok s =>
      let valid := match olookup (p_name p) ov with Some l => l | None => fst s end in
      ga_pure r ov (acc ++ [mkGroup (Some p) (if is_path (p_pos p) then None else Some (negb (p_required p)))
                                    valid (snd s)])
    | LibErr e => LibErr e | PyErr e => PyErr e | OutOfFuel => OutOfFuel
    end
  end.

Definition generate_all_pure (op : operation) (ov : list (nat * list sample)) : res plan :=
  match ga_pure (o_params op) ov [] with
  | Ok pl =>
    match o_body op with
    | None => Ok pl
    | Some (k, required) =>
      match compute k true with
      | Ok s => Ok (pl ++ [mkGroup None (Some (negb required)) (fst s) (snd s)])
      | LibErr e => LibErr e | PyErr e => PyErr e | OutOfFuel => OutOfFuel
      end
    end
  | r => r
  end.

Lemma ga_params_spec : forall ps c ov acc, Inv c ->
  Inv (fst (ga_params V compute c ps ov acc)) /\ snd (ga_params V compute c ps ov acc) = ga_pure ps ov acc.
Proof.
  induction ps as [|p r IH]; intros c ov acc I; simpl; auto.
  destruct (add_spec c (p_schema p) false I) as [I1 E1].
  destruct (add compute c (p_schema p) false) as [c1 r1]. simpl in I1, E1. subst r1.
  destruct (compute (p_schema p) false) as [s| | |]; simpl; auto.
  destruct (olookup (p_name p) ov); apply IH; exact I1.
Qed.

Lemma generate_all_spec c op ov : Inv c ->
  Inv (fst (generate_all V compute c op ov)) /\
  snd (generate_all V compute c op ov) = generate_all_pure op ov.
Proof.
  intros I. unfold generate_all, generate_all_pure.
  destruct (ga_params_spec (o_params op) c ov [] I) as [I1 E1].
  destruct (ga_params V compute c (o_params op) ov []) as [c1 r1]. simpl in I1, E1. rewrite <- E1.
  destruct r1 as [pl| | |]; simpl; auto.
  destruct (o_body op) as [[k required]|]; simpl; auto.
  destruct (add_spec c1 k true I1) as [I2 E2].
  destruct (add compute c1 k true) as [c2 r2]. simpl in I2, E2. subst r2.
  destruct (compute k true); simpl; auto.
Qed.

Fixpoint go_pure (ps : list param) (ow : list (nat * sample)) (acc : list (param * sample))
  : res (list (param * sample)) :=
  match ps with
  | [] => Ok acc
  | p :: r =>
    match olookup (p_name p) ow with
    | Some s => go_pure r ow (acc ++ [(p, s)])
    | None =>
      if p_required p then
        match compute (p_schema p) false with
        | Ok (v :: _, _) => go_pure r ow (acc ++ [(p, v)])
        | Ok ([], _) => PyErr EIndexError
        | LibErr e => LibErr e | PyErr e => PyErr e | OutOfFuel => OutOfFuel
        end
      else go_pure r ow acc
    end
  end.

Definition generate_one_valid_pure (op : operation) (ow : list (nat * sample))
  : res (list (param * sample) * option sample) :=
  match go_pure (o_params op) ow [] with
  | Ok l =>
    match o_body op with
    | None => Ok (l, None)
    | Some (k, _) =>
      match compute k true with
      | Ok (v :: _, _) => Ok (l, Some v)
      | Ok ([], _) => PyErr EIndexError
      | LibErr e => LibErr e | PyErr e => PyErr e | OutOfFuel => OutOfFuel
      end
    end
  | LibErr e => LibErr e | PyErr e => PyErr e | OutOfFuel => OutOfFuel
  end.

Lemma go_params_spec : forall ps c ow acc, Inv c ->
  Inv (fst (go_params compute c ps ow acc)) /\ snd (go_params compute c ps ow acc) = go_pure ps ow acc.
Proof.
  induction ps as [|p r IH]; intros c ow acc I; simpl; auto.
  destruct (olookup (p_name p) ow); [apply IH; exact I|].
  destruct (p_required p); [|apply IH; exact I].
  destruct (add_spec c (p_schema p) false I) as [I1 E1].
  destruct (add compute c (p_schema p) false) as [c1 r1]. simpl in I1, E1. subst r1.
  destruct (compute (p_schema p) false) as [[[|v vs] inv]| | |]; simpl; auto.
Qed.

Lemma generate_one_valid_spec c op ow : Inv c ->
  Inv (fst (generate_one_valid compute c op ow)) /\
  snd (generate_one_valid compute c op ow) = generate_one_valid_pure op ow.
Proof.
  intros I. unfold generate_one_valid, generate_one_valid_pure.
  destruct (go_params_spec (o_params op) c ow [] I) as [I1 E1].
  destruct (go_params compute c (o_params op) ow []) as [c1 r1]. simpl in I1, E1. rewrite <- E1.
  destruct r1 as [l| | |]; simpl; auto.
  destruct (o_body op) as [[k required]|]; simpl; auto.
  destruct (add_spec c1 k true I1) as [I2 E2].
  destruct (add compute c1 k true) as [c2 r2]. simpl in I2, E2. subst r2.
  destruct (compute k true) as [[[|v vs] inv]| | |]; simpl; auto.
Qed.

Lemma history_inv : forall h c, Inv c -> Inv (fold_left (step V compute) h c).
Proof.
  induction h as [|x h IH]; intros c I; simpl; auto. apply IH.
  destruct x as [op ov|op ow]; simpl.
  - apply generate_all_spec; exact I.
  - apply generate_one_valid_spec; exact I.
Qed.

Theorem cache_transparent_all : forall h op ov,
  snd (generate_all V compute (run_history V compute h) op ov) =
  snd (generate_all V compute empty_cache op ov).
Proof.
  intros h op ov.
  destruct (generate_all_spec (run_history V compute h) op ov (history_inv h _ Inv_empty)) as [_ ->].
  destruct (generate_all_spec empty_cache op ov Inv_empty) as [_ ->]. reflexivity.
Qed.

Theorem cache_transparent_one : forall h op ow,
  snd (generate_one_valid compute (run_history V compute h) op ow) =
  snd (generate_one_valid compute empty_cache op ow).
Proof.
  intros h op ow.
  destruct (generate_one_valid_spec (run_history V compute h) op ow (history_inv h _ Inv_empty)) as [_ ->].
  destruct (generate_one_valid_spec empty_cache op ow Inv_empty) as [_ ->]. reflexivity.
Qed.

(* body samples are never served for a parameter or vice versa: whatever the history, a lookup
   under a flag returns what the pipeline computes for that very flag, and touches only its table *)
Theorem cache_separation : forall h k b,
  let c := run_history V compute h in
  snd (add compute c k b) = compute k b /\
  (b = true -> c_other (fst (add compute c k b)) = c_other c) /\
  (b = false -> c_body (fst (add compute c k b)) = c_body c).
Proof.
  intros h k b c. split; [apply add_spec; apply history_inv; apply Inv_empty|].
  unfold add. destruct (tlookup k _); [split; reflexivity|].
  destruct (compute k b); split; intros ->; reflexivity.
Qed.

End Proofs.

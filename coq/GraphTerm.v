(* GraphTerm.v -- termination facts (C11). *)
From Fences Require Import GraphSpec GraphLinks GraphExec.

Section LoopTerm.
Variable V : variant.
Variable g : graph.
Variables (fuel : nat) (lv lr : amap).

(* the work-list loop of generate_paths ends after at most |to_visit| rounds: a larger round
   counter never changes its result (the target of each round is always among the visited nodes) *)
Lemma gp_loop_counter : forall k tv, length tv <= k ->
  gp_loop V k fuel g lv lr tv = gp_loop V (length tv) fuel g lv lr tv.
Proof.
  induction k as [k IH] using lt_wf_ind; intros tv L.
  destruct k as [|k].
  - destruct tv; simpl in *; [reflexivity|lia].
  - destruct tv as [|next tv0] eqn:TV; [reflexivity|].
    rewrite <- TV in *.
    assert (E : length tv = S (length tv0)) by (rewrite TV; reflexivity).
    rewrite E. rewrite (gp_loop_S V g fuel lv lr k tv next tv0 TV).
    rewrite (gp_loop_S V g fuel lv lr (length tv0) tv next tv0 TV).
    destruct (backward fuel g lr next) as [[[r bp] vs]| | |] eqn:B; try reflexivity.
    destruct (forward V fuel g lv r (rev bp)) as [[[[fp vs'] sat] rest]| | |]; try reflexivity.
    cbv zeta.
    set (tv' := filter (fun x => negb (mem x (vs ++ vs'))) tv).
    assert (Lt : length tv' < length tv).
    { destruct (backward_vs_head g lr _ _ _ _ _ B) as [vs0 ->].
      apply filter_length_lt with (x := next).
      - rewrite TV. left. reflexivity.
      - simpl. rewrite Nat.eqb_refl. reflexivity. }
    rewrite (IH k (Nat.lt_succ_diag_r k) tv') by lia.
    destruct (Nat.eq_dec (length tv0) k) as [->|Ne]; [rewrite (IH k (Nat.lt_succ_diag_r k) tv') by lia; reflexivity|].
    rewrite (IH (length tv0)) with (tv := tv') by lia. reflexivity.
Qed.

End LoopTerm.

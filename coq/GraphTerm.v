(* GraphTerm.v -- termination facts (C11). *)
From Fences Require Import GraphSpec GraphLinks GraphExec.

Section LoopTerm.
Variable V : variant.
Variable g : graph.
Variables (fuel : nat) (lv lr : amap).

(* the work-list loop of generate_paths ends after at most |to_visit| rounds: a larger round
   counter never changes its result (the target of each round is always among the visited nodes) *)
Lemma gp_loop_counter : forall k tv, length tv <= k ->
  gp_loop V k fuel g lv lr tv = gp_loop V (length tv) fuel g lv lr tv.
Proof.
  induction k as [k IH] using lt_wf_ind; intros tv L.
  destruct k as [|k].
  - destruct tv; simpl in *; [reflexivity|lia].
  - destruct tv as [|next tv0] eqn:TV; [reflexivity|].
    rewrite <- TV in *.
    assert (E : length tv = S (length tv0)) by (rewrite TV; reflexivity).
    rewrite E. rewrite (gp_loop_S V g fuel lv lr k tv next tv0 TV).
    rewrite (gp_loop_S V g fuel lv lr (length tv0) tv next tv0 TV).
    destruct (backward fuel g lr next) as [[[r bp] vs]| | |] eqn:B; try reflexivity.
    destruct (forward V fuel g lv r (rev bp)) as [[[[fp vs'] sat] rest]| | |]; try reflexivity.
    cbv zeta.
    set (tv' := filter (fun x => negb (mem x (vs ++ vs'))) tv).
    assert (Lt : length tv' < length tv).
    { destruct (backward_vs_head g lr _ _ _ _ _ B) as [vs0 ->].
      apply filter_length_lt with (x := next).
      - rewrite TV. left. reflexivity.
      - simpl. rewrite Nat.eqb_refl. reflexivity. }
    rewrite (IH k (Nat.lt_succ_diag_r k) tv') by lia.
    destruct (Nat.eq_dec (length tv0) k) as [->|Ne]; [rewrite (IH k (Nat.lt_succ_diag_r k) tv') by lia; reflexivity|].
    rewrite (IH (length tv0)) with (tv := tv') by lia. reflexivity.
Qed.

End LoopTerm.

(* ================= termination of the traversals (fuel that always suffices) ================= *)
From Fences Require Import GraphFuel GraphAnalysis.

(* ---------- items(): depth is bounded by the number of nodes ---------- *)
Definition unv (g : graph) (vis : list nat) : nat :=
  length (filter (fun x => negb (mem x vis)) (seq 0 (length g))).

Lemma filter_length_mono {A} (p q : A -> bool) l :
  (forall x, In x l -> p x = true -> q x = true) -> length (filter p l) <= length (filter q l).
Proof.
  induction l as [|x r IH]; simpl; intros H; auto.
  assert (IH' := IH (fun y Hy => H y (or_intror Hy))).
  destruct (p x) eqn:P.
  - rewrite (H x (or_introl eq_refl) P). simpl. lia.
  - destruct (q x); simpl; lia.
Qed.

Lemma unv_mono g vis vis' : (forall x, In x vis -> In x vis') -> unv g vis' <= unv g vis.
Proof.
  intros H. unfold unv. apply filter_length_mono. intros x _ Hx.
  apply negb_true_iff in Hx. apply negb_true_iff.
  destruct (mem x vis) eqn:M; auto. apply mem_In in M. apply H in M. apply mem_In in M. congruence.
Qed.

Lemma unv_add g vis n : n < length g -> mem n vis = false -> unv g (vis ++ [n]) < unv g vis.
Proof.
  intros L M. unfold unv.
  assert (A : forall l, In n l -> NoDup l ->
     length (filter (fun x => negb (mem x (vis ++ [n]))) l) < length (filter (fun x => negb (mem x vis)) l)).
  { induction l as [|x r IH]; intros Hin ND; [contradiction|]. inversion ND; subst. simpl.
    destruct Hin as [->|Hin].
    - rewrite M. simpl.
      assert (E : mem n (vis ++ [n]) = true) by (apply mem_In; apply in_or_app; right; left; reflexivity).
      rewrite E. simpl.
      assert (B : length (filter (fun x => negb (mem x (vis ++ [n]))) r) <= length (filter (fun x => negb (mem x vis)) r)).
      { apply filter_length_mono. intros y _ Hy. apply negb_true_iff in Hy. apply negb_true_iff.
        destruct (mem y vis) eqn:My; auto. apply mem_In in My.
        assert (In y (vis ++ [n])) by (apply in_or_app; auto). apply mem_In in H. congruence. }
      lia.
    - specialize (IH Hin H2).
      assert (Nx : x <> n) by (intros ->; contradiction).
      assert (E : mem x (vis ++ [n]) = mem x vis).
      { destruct (mem x vis) eqn:Mx.
        - apply mem_In. apply in_or_app. left. apply mem_In. exact Mx.
        - destruct (mem x (vis ++ [n])) eqn:Mx'; auto. apply mem_In in Mx'. apply in_app_or in Mx'.
          destruct Mx' as [Hx|[Hx|[]]]; [apply mem_In in Hx; congruence|congruence]. }
      rewrite E. destruct (mem x vis); simpl; lia. }
  apply A; [apply in_seq; lia|apply seq_NoDup].
Qed.

Lemma outs_ok_lt g s i t : outs_ok g -> nth_error (outs_of g s) i = Some t -> t < length g.
Proof.
  intros OO N. apply OO in N. destruct (Nat.lt_ge_cases t (length g)) as [L|L]; auto.
  unfold ins_of in N. rewrite getn_out in N by exact L. contradiction.
Qed.

Lemma dfs_terminates g (OO : outs_ok g) : forall f vis n,
  n < length g -> unv g vis < f ->
  exists vis', dfs f g vis n = Ok vis' /\ (forall x, In x vis -> In x vis').
Proof.
  induction f as [|f IH]; intros vis n L U; [lia|]. simpl.
  destruct (mem n vis) eqn:M; [eauto|].
  pose proof (unv_add g vis n L M) as U1.
  destruct (is_dec g n); [|exists (vis ++ [n]); split; auto; intros; apply in_or_app; auto].
  assert (G : forall l visa, (forall t, In t l -> t < length g) -> unv g visa < f ->
             exists visb, foldM (dfs f g) l visa = Ok visb /\ (forall x, In x visa -> In x visb)).
  { induction l as [|t l IHl]; intros visa Hl Ua; simpl; [eauto|].
    destruct (IH visa t (Hl t (or_introl eq_refl)) Ua) as (v1 & E1 & S1). rewrite E1. simpl.
    destruct (IHl v1 (fun x Hx => Hl x (or_intror Hx))) as (v2 & E2 & S2).
    { pose proof (unv_mono g visa v1 S1). lia. }
    exists v2. split; auto. }
  destruct (G (outs_of g n) (vis ++ [n])) as (v & E & S1).
  - intros t Ht. apply In_nth_error in Ht. destruct Ht as [i Hi]. eapply outs_ok_lt; eauto.
  - lia.
  - exists v. split; auto. intros x Hx. apply S1. apply in_or_app. auto.
Qed.

Corollary items_terminates g root : outs_ok g -> root < length g ->
  forall f, length g < f -> exists its, items f g root = Ok its.
Proof.
  intros OO L f F. destruct (dfs_terminates g OO f [] root L) as (v & E & _).
  - unfold unv. pose proof (filter_length_le' (fun x => negb (mem x [])) (seq 0 (length g))).
    rewrite seq_length in H. lia.
  - eauto.
Qed.

(* ---------- the annotation passes: depth is bounded by the number of transition records ---------- *)
Definition dle (a b : dist) : Prop :=
  match a, b with Some x, Some y => x <= y | _, None => True | None, Some _ => False end.
Definition map_le (m' m : amap) : Prop := forall a b, dle (m' a b) (m a b).
Definition dlt (d : dist) (k : nat) : Prop := match d with Some x => x < k | None => False end.

Lemma dle_refl a : dle a a. Proof. destruct a; simpl; auto. Qed.
Lemma dle_trans a b c : dle a b -> dle b c -> dle a c.
Proof. destruct a, b, c; simpl; intros; try lia; auto; contradiction. Qed.
Lemma map_le_refl m : map_le m m. Proof. intros a b. apply dle_refl. Qed.
Lemma map_le_trans a b c : map_le a b -> map_le b c -> map_le a c.
Proof. intros H1 H2 x y. eapply dle_trans; eauto. Qed.
Lemma map_le_aupd m a b len : dist_lt (Some len) (m a b) = true -> map_le (aupd m a b (Some len)) m.
Proof.
  intros H x y. unfold aupd. destruct ((x =? a) && (y =? b)) eqn:E; [|apply dle_refl].
  apply andb_true_iff in E. destruct E as [E1 E2]. apply Nat.eqb_eq in E1, E2. subst.
  destruct (m a b) as [v|]; simpl in *; auto. apply Nat.ltb_lt in H. lia.
Qed.
Lemma dlt_le d d' k : dle d' d -> dlt d k -> dlt d' k.
Proof. destruct d, d'; simpl; intros; try lia; auto; contradiction. Qed.
Lemma dlt_weaken d k k' : k <= k' -> dlt d k -> dlt d k'.
Proof. destruct d; simpl; intros; auto. lia. Qed.

Definition recs_in (g : graph) : list (nat * nat) :=
  flat_map (fun n => map (fun p => (n, p)) (seq 0 (length (ins_of g n)))) (seq 0 (length g)).
Definition recs_out (g : graph) : list (nat * nat) :=
  flat_map (fun n => map (fun p => (n, p)) (seq 0 (length (outs_of g n)))) (seq 0 (length g)).

Lemma in_recs_in g t pos : t < length g -> pos < length (ins_of g t) -> In (t, pos) (recs_in g).
Proof.
  intros Lt Lp. unfold recs_in. apply in_flat_map. exists t. split; [apply in_seq; lia|].
  apply in_map_iff. exists pos. split; auto. apply in_seq. lia.
Qed.
Lemma in_recs_out g s i : s < length g -> i < length (outs_of g s) -> In (s, i) (recs_out g).
Proof.
  intros Ls Li. unfold recs_out. apply in_flat_map. exists s. split; [apply in_seq; lia|].
  apply in_map_iff. exists i. split; auto. apply in_seq. lia.
Qed.

Lemma index_where_some {A} (p : A -> bool) : forall l k x, In x l -> p x = true ->
  exists j, index_where p l k = Some (k + j) /\ j < length l.
Proof.
  induction l as [|y r IH]; intros k x Hin Px; [contradiction|]. simpl.
  destruct (p y) eqn:Py; [exists 0; split; [f_equal; lia|simpl; lia]|].
  destruct Hin as [->|Hin]; [congruence|].
  destruct (IH (S k) x Hin Px) as (j & E & Lj). exists (S j). split; [rewrite E; f_equal; lia|simpl; lia].
Qed.

Lemma stack_room {A} (stack all : list A) x :
  NoDup stack -> incl stack all -> In x all -> ~ In x stack -> length stack < length all.
Proof.
  intros ND I Hx Nx.
  assert (NoDup (x :: stack)) by (constructor; auto).
  assert (incl (x :: stack) all) by (intros y [<-|Hy]; auto).
  pose proof (NoDup_incl_length H H0). simpl in H1. lia.
Qed.

Section AfTerm.
Variable V : variant.
Variable g : graph.
Hypothesis FA : fix_af V = true.
Hypothesis OO : outs_ok g.

Lemma af_decreases : forall f lr n len lr', af V f g lr n len = Ok lr' -> map_le lr' lr.
Proof.
  induction f as [|f IH]; intros lr n len lr' H; cbn [af] in H; [discriminate|].
  destruct (is_dec g n); [|inversion H; subst; apply map_le_refl].
  revert lr H. generalize (enumerate (outs_of g n)).
  induction l as [|[idx t] l IHl]; intros lr H; cbn [foldM bind] in H; [inversion H; subst; apply map_le_refl|].
  destruct (index_where _ _ _) as [pos|]; [|discriminate].
  destruct (dist_lt (Some len) (lr t pos)) eqn:E.
  - destruct (af V f g (aupd lr t pos (Some len)) t (S len)) as [lr1| | |] eqn:E1; cbn [bind] in H; try discriminate.
    eapply map_le_trans; [eapply IHl; eauto|]. eapply map_le_trans; [eapply IH; eauto|]. apply map_le_aupd. exact E.
  - cbn [bind] in H. eapply IHl; eauto.
Qed.

Lemma af_terminates : forall f lr n len stack,
  NoDup stack -> incl stack (recs_in g) ->
  (forall r, In r stack -> dlt (lr (fst r) (snd r)) len) ->
  length (recs_in g) - length stack < f ->
  exists lr', af V f g lr n len = Ok lr'.
Proof.
  induction f as [|f IH]; intros lr n len stack ND I St Fu; [lia|]. cbn [af].
  destruct (is_dec g n) eqn:D; [|eauto].
  assert (G : forall l (k : nat) lr0, (forall i t, In (i, t) l -> nth_error (outs_of g n) i = Some t) ->
             map_le lr0 lr ->
             exists lr', foldM (fun lr '(idx, t) =>
               match index_where (af_pick V n idx) (ins_of g t) 0 with
               | None => PyErr EIndexError
               | Some pos => if dist_lt (Some len) (lr t pos) then af V f g (aupd lr t pos (Some len)) t (S len) else Ok lr
               end) l lr0 = Ok lr' /\ map_le lr' lr0).
  { induction l as [|[idx t] l IHl]; intros k lr0 Hl M; cbn [foldM bind]; [exists lr0; split; auto; apply map_le_refl|].
    pose proof (Hl idx t (or_introl eq_refl)) as Nt.
    pose proof (OO _ _ _ Nt) as Hin.
    destruct (index_where_some (af_pick V n idx) (ins_of g t) 0 (n, idx) Hin) as (pos & E & Lp).
    { unfold af_pick. rewrite FA, !Nat.eqb_refl. reflexivity. }
    simpl in E. rewrite E.
    destruct (dist_lt (Some len) (lr0 t pos)) eqn:DL.
    - assert (Nin : ~ In (t, pos) stack).
      { intros Hs. specialize (St _ Hs). simpl in St. pose proof (M t pos) as Ml.
        destruct (lr0 t pos) as [v0|], (lr t pos) as [v|]; simpl in *; try contradiction.
        apply Nat.ltb_lt in DL. lia. }
      assert (Hrec : In (t, pos) (recs_in g)) by (apply in_recs_in; auto; eapply outs_ok_lt; eauto).
      pose proof (stack_room stack (recs_in g) (t, pos) ND I Hrec Nin) as Room.
      destruct (IH (aupd lr0 t pos (Some len)) t (S len) ((t, pos) :: stack)) as (lr1 & E1).
      + constructor; auto.
      + intros r [<-|Hr]; auto.
      + intros r [<-|Hr]; simpl.
        * rewrite aupd_same. simpl. lia.
        * apply dlt_weaken with (k := len); [lia|].
          eapply dlt_le; [|apply St; exact Hr].
          eapply dle_trans; [apply map_le_aupd; exact DL|apply M].
      + simpl. lia.
      + rewrite E1. cbn [bind].
        pose proof (af_decreases _ _ _ _ _ E1) as M1.
        assert (M2 : map_le lr1 lr).
        { eapply map_le_trans; [exact M1|]. eapply map_le_trans; [apply map_le_aupd; exact DL|exact M]. }
        destruct (IHl (S k) lr1 (fun i x Hx => Hl i x (or_intror Hx)) M2) as (lr2 & E2 & M3).
        exists lr2. split; auto. eapply map_le_trans; [exact M3|].
        eapply map_le_trans; [exact M1|]. apply map_le_aupd. exact DL.
    - cbn [bind]. destruct (IHl (S k) lr0 (fun i x Hx => Hl i x (or_intror Hx)) M) as (lr2 & E2 & M3).
      exists lr2. split; auto. }
  destruct (G (enumerate (outs_of g n)) 0 lr) as (lr' & E & _).
  - intros i t Hin. unfold enumerate in Hin. clear - Hin.
    assert (A : forall l k, In (i, t) (enum_from k l) -> k <= i /\ nth_error l (i - k) = Some t).
    { induction l as [|x r IH]; intros k H; simpl in H; [contradiction|].
      destruct H as [H|H]; [inversion H; subst; rewrite Nat.sub_diag; auto|].
      destruct (IH (S k) H) as [A B]. split; [lia|]. replace (i - k) with (S (i - S k)) by lia. exact B. }
    destruct (A _ _ Hin) as [_ B]. rewrite Nat.sub_0_r in B. exact B.
  - apply map_le_refl.
  - eauto.
Qed.

Corollary af_root_terminates lr0 root f :
  length (recs_in g) < f -> (forall a b, lr0 a b = None) -> exists lr, af V f g lr0 root 0 = Ok lr.
Proof.
  intros F B. apply af_terminates with (stack := []); auto; try constructor.
  - intros x [].
  - intros r [].
  - simpl. lia.
Qed.

End AfTerm.

Section AbTerm.
Variable g : graph.
Hypothesis IO : ins_ok g.
Hypothesis NE : nonempty_decs g.

Definition ab_loop (f : nat) (L : nat) :=
  (fun lv '(s, idx) =>
     if idx <? length (outs_of g s) then
       if dist_lt (Some L) (lv s idx) then ab f g (aupd lv s idx (Some L)) s (S L) else Ok lv
     else PyErr EIndexError).

Lemma ab_unfold f lv n len :
  ab (S f) g lv n len =
  if is_all g n then
    match outs_of g n with
    | [] => PyErr EValueError
    | _ => match max_outs g lv n with None => Ok lv | Some L => foldM (ab_loop f L) (ins_of g n) lv end
    end
  else foldM (ab_loop f len) (ins_of g n) lv.
Proof. reflexivity. Qed.

Lemma ab_decreases : forall f lv n len lv', ab f g lv n len = Ok lv' -> map_le lv' lv.
Proof.
  induction f as [|f IH]; intros lv n len lv' H; [discriminate|]. rewrite ab_unfold in H.
  assert (G : forall L l lv0 lv1, foldM (ab_loop f L) l lv0 = Ok lv1 -> map_le lv1 lv0).
  { intros L. induction l as [|[s idx] l IHl]; intros lv0 lv1 F; cbn [foldM bind] in F; [inversion F; subst; apply map_le_refl|].
    unfold ab_loop at 1 in F. destruct (idx <? _); [|discriminate].
    destruct (dist_lt (Some L) (lv0 s idx)) eqn:E.
    - destruct (ab f g (aupd lv0 s idx (Some L)) s (S L)) as [lv2| | |] eqn:E1; cbn [bind] in F; try discriminate.
      eapply map_le_trans; [eapply IHl; eauto|]. eapply map_le_trans; [eapply IH; eauto|]. apply map_le_aupd. exact E.
    - cbn [bind] in F. eapply IHl; eauto. }
  destruct (is_all g n).
  - destruct (outs_of g n); [discriminate|]. destruct (max_outs g lv n); [eapply G; eauto|inversion H; subst; apply map_le_refl].
  - eapply G; eauto.
Qed.

Lemma fold_max_ub l L : fold_right dist_max (Some 0) l = Some L -> forall d, In d l -> dle d (Some L).
Proof.
  revert L; induction l as [|x r IH]; simpl; intros L H d Hd; [contradiction|].
  destruct x as [vx|]; simpl in H; [|discriminate].
  destruct (fold_right dist_max (Some 0) r) as [m|] eqn:E; [|discriminate].
  inversion H; subst L. destruct Hd as [<-|Hd]; simpl; [lia|].
  specialize (IH m eq_refl d Hd). destruct d; simpl in *; auto. lia.
Qed.

Lemma max_outs_ub lv n L i : max_outs g lv n = Some L -> i < length (outs_of g n) -> dle (lv n i) (Some L).
Proof.
  unfold max_outs. intros H Li. eapply fold_max_ub; eauto.
  eapply nth_error_In. apply row_nth. exact Li.
Qed.

Lemma ab_terminates : forall f lv n len stack,
  NoDup stack -> incl stack (recs_out g) ->
  (forall r, In r stack -> dlt (lv (fst r) (snd r)) len) ->
  (is_all g n = true -> exists i, i < length (outs_of g n) /\ dle (Some (len - 1)) (lv n i)) ->
  length (recs_out g) - length stack < f ->
  exists lv', ab f g lv n len = Ok lv'.
Proof.
  induction f as [|f IH]; intros lv n len stack ND I St Pre Fu; [lia|]. rewrite ab_unfold.
  assert (G : forall L, len <= S L -> forall l lv0,
             (forall s idx, In (s, idx) l -> In (s, idx) (ins_of g n)) -> map_le lv0 lv ->
             exists lv', foldM (ab_loop f L) l lv0 = Ok lv' /\ map_le lv' lv0).
  { intros L HL. induction l as [|[s idx] l IHl]; intros lv0 Hl M; cbn [foldM bind]; [exists lv0; split; auto; apply map_le_refl|].
    destruct (IO n s idx (Hl s idx (or_introl eq_refl))) as [Ds Ns].
    assert (Li : idx < length (outs_of g s)) by (apply nth_error_Some; congruence).
    unfold ab_loop at 1. destruct (Nat.ltb_spec idx (length (outs_of g s))) as [_|]; [|lia].
    destruct (dist_lt (Some L) (lv0 s idx)) eqn:DL.
    - assert (Nin : ~ In (s, idx) stack).
      { intros Hs. specialize (St _ Hs). simpl in St. pose proof (M s idx) as Ml.
        destruct (lv0 s idx) as [v0|], (lv s idx) as [v|]; simpl in *; try contradiction.
        apply Nat.ltb_lt in DL. lia. }
      assert (Hrec : In (s, idx) (recs_out g)) by (apply in_recs_out; auto; apply is_dec_lt; exact Ds).
      pose proof (stack_room stack (recs_out g) (s, idx) ND I Hrec Nin) as Room.
      destruct (IH (aupd lv0 s idx (Some L)) s (S L) ((s, idx) :: stack)) as (lv1 & E1).
      + constructor; auto.
      + intros r [<-|Hr]; auto.
      + intros r [<-|Hr]; simpl.
        * rewrite aupd_same. simpl. lia.
        * apply dlt_weaken with (k := len); [lia|].
          eapply dlt_le; [|apply St; exact Hr].
          eapply dle_trans; [apply map_le_aupd; exact DL|apply M].
      + intros _. exists idx. split; auto. rewrite aupd_same. simpl. lia.
      + simpl. lia.
      + rewrite E1. cbn [bind].
        pose proof (ab_decreases _ _ _ _ _ E1) as M1.
        assert (M2 : map_le lv1 lv).
        { eapply map_le_trans; [exact M1|]. eapply map_le_trans; [apply map_le_aupd; exact DL|exact M]. }
        destruct (IHl lv1 (fun a b Hx => Hl a b (or_intror Hx)) M2) as (lv2 & E2 & M3).
        exists lv2. split; auto. eapply map_le_trans; [exact M3|].
        eapply map_le_trans; [exact M1|]. apply map_le_aupd. exact DL.
    - cbn [bind]. destruct (IHl lv0 (fun a b Hx => Hl a b (or_intror Hx)) M) as (lv2 & E2 & M3).
      exists lv2. split; auto. }
  destruct (is_all g n) eqn:A.
  - assert (D : is_dec g n = true) by (unfold is_all, is_dec in *; destruct (kind_of g n); auto; discriminate).
    destruct (outs_of g n) as [|o os] eqn:O; [exfalso; apply (NE n D O)|].
    destruct (max_outs g lv n) as [L|] eqn:M; [|eauto].
    destruct (Pre eq_refl) as (i & Li & Di).
    assert (HL : len <= S L).
    { rewrite <- O in Li. pose proof (max_outs_ub lv n L i M Li) as U.
      destruct (lv n i) as [v|]; simpl in *; [lia|contradiction]. }
    destruct (G L HL (ins_of g n) lv (fun _ _ H => H) (map_le_refl lv)) as (lv' & E & _). eauto.
  - destruct (G len ltac:(lia) (ins_of g n) lv (fun _ _ H => H) (map_le_refl lv)) as (lv' & E & _). eauto.
Qed.

Lemma ab_leaves_terminate f : length (recs_out g) < f ->
  forall leaves lv0, (forall l, In l leaves -> is_all g l = false) ->
  exists lv, foldM (fun lv l => ab f g lv l 0) leaves lv0 = Ok lv.
Proof.
  intros F. induction leaves as [|l ls IH]; intros lv0 H; simpl; [eauto|].
  destruct (ab_terminates f lv0 l 0 [] ltac:(constructor) ltac:(intros x []) ltac:(intros r []))
    as (lv1 & E); [intros A; rewrite (H l (or_introl eq_refl)) in A; discriminate|simpl; lia|].
  rewrite E. simpl. apply IH. intros; apply H; right; auto.
Qed.

End AbTerm.

(* ---------- the analysis phase of generate_paths always ends, with a budget linear in the graph ---------- *)
Definition analysis_budget (g : graph) : nat := S (length g + length (recs_in g) + length (recs_out g)).

Theorem analyse_terminates V g root :
  consistent g -> nonempty_decs g -> fix_af V = true -> root < length g ->
  forall fuel lr0 lv0, analysis_budget g <= fuel -> exists a, analyse V fuel g root lr0 lv0 = Ok a.
Proof.
  intros [IO OO] NE FA L fuel lr0 lv0 B. unfold analysis_budget in B. unfold analyse.
  destruct (items_terminates g root OO L fuel ltac:(lia)) as [its E]. rewrite E. cbn [bind].
  set (lr1 := if fix_reset V then areset its lr0 else lr0).
  set (lv1 := if fix_reset V then areset its lv0 else lv0).
  destruct (af_terminates V g FA OO fuel lr1 root 0 [] ltac:(constructor) ltac:(intros x []) ltac:(intros r []))
    as [lr E2]; [simpl; lia|].
  rewrite E2. cbn [bind].
  destruct (ab_leaves_terminate g IO NE fuel ltac:(lia) (filter (leaf_is g true) its) lv1) as [lv E3].
  - intros l Hl. apply filter_In in Hl. destruct Hl as [_ Hl].
    unfold leaf_is, is_all in *. destruct (kind_of g l); auto; discriminate.
  - rewrite E3. cbn [bind]. eauto.
Qed.

(* ---------- what _analyze_forwards establishes (with the fix): distances to the root ---------- *)
Section AfSem.
Variable V : variant.
Variable g : graph.
Variable root : nat.
Hypothesis FA : fix_af V = true.
Hypothesis OO : outs_ok g.

(* every finite record of a node points to a source that is the root at distance 0, or that itself has a
   strictly smaller finite record *)
Definition Jr (lr : amap) : Prop :=
  forall t pos s idx d, nth_error (ins_of g t) pos = Some (s, idx) -> lr t pos = Some d ->
    (s = root /\ d = 0) \/ (exists pos', pos' < length (ins_of g s) /\ dlt (lr s pos') d).
Definition PreR (lr : amap) (n len : nat) : Prop :=
  (n = root /\ len = 0) \/ (exists pos', pos' < length (ins_of g n) /\ dlt (lr n pos') len).

Lemma index_where_spec {A} (p : A -> bool) : forall l k j, index_where p l k = Some j ->
  k <= j /\ exists x, nth_error l (j - k) = Some x /\ p x = true.
Proof.
  induction l as [|y r IH]; intros k j H; simpl in H; [discriminate|].
  destruct (p y) eqn:Py.
  - inversion H; subst. split; [lia|]. rewrite Nat.sub_diag. exists y. auto.
  - destruct (IH _ _ H) as (L & x & N & Px). split; [lia|]. exists x. split; auto.
    replace (j - k) with (S (j - S k)) by lia. exact N.
Qed.

Lemma Jr_le lr lr' : map_le lr' lr -> forall s pos' d, dlt (lr s pos') d -> dlt (lr' s pos') d.
Proof. intros M s pos' d H. eapply dlt_le; [apply M|exact H]. Qed.

Lemma af_Jr : forall f lr n len lr',
  af V f g lr n len = Ok lr' -> Jr lr -> PreR lr n len -> Jr lr'.
Proof.
  induction f as [|f IH]; intros lr n len lr' H J Pre; cbn [af] in H; [discriminate|].
  destruct (is_dec g n); [|inversion H; subst; auto].
  assert (G : forall l lr0 lr1,
     foldM (fun lr '(idx, t) =>
               match index_where (af_pick V n idx) (ins_of g t) 0 with
               | None => PyErr EIndexError
               | Some pos => if dist_lt (Some len) (lr t pos) then af V f g (aupd lr t pos (Some len)) t (S len) else Ok lr
               end) l lr0 = Ok lr1 -> Jr lr0 -> PreR lr0 n len -> Jr lr1).
  { induction l as [|[idx t] l IHl]; intros lr0 lr1 F J0 P0; cbn [foldM bind] in F; [inversion F; subst; auto|].
    destruct (index_where (af_pick V n idx) (ins_of g t) 0) as [pos|] eqn:IW; [|discriminate].
    destruct (index_where_spec _ _ _ _ IW) as (_ & [s i] & Np & Pk). rewrite Nat.sub_0_r in Np.
    unfold af_pick in Pk. rewrite FA in Pk. apply andb_true_iff in Pk. destruct Pk as [Ei Es].
    apply Nat.eqb_eq in Ei, Es. subst i s.
    destruct (dist_lt (Some len) (lr0 t pos)) eqn:DL.
    - destruct (af V f g (aupd lr0 t pos (Some len)) t (S len)) as [lr2| | |] eqn:E1; cbn [bind] in F; try discriminate.
      set (lrA := aupd lr0 t pos (Some len)) in *.
      assert (MA : map_le lrA lr0) by (apply map_le_aupd; exact DL).
      assert (JA : Jr lrA).
      { intros t' pos' s' idx' d Nn Hd. unfold lrA, aupd in Hd.
        destruct ((t' =? t) && (pos' =? pos)) eqn:Eq.
        - apply andb_true_iff in Eq. destruct Eq as [E1' E2']. apply Nat.eqb_eq in E1', E2'. subst t' pos'.
          rewrite Np in Nn. inversion Nn; subst s' idx'. inversion Hd; subst d.
          destruct P0 as [[-> ->]|(p' & Lp' & Hp)]; [left; auto|right; exists p'; split; auto; eapply Jr_le; eauto].
        - destruct (J0 _ _ _ _ _ Nn Hd) as [A|(p' & Lp' & Hp)]; [left; auto|right; exists p'; split; auto; eapply Jr_le; eauto]. }
      assert (P1 : PreR lrA t (S len)).
      { right. exists pos. split; [apply nth_error_Some; congruence|]. unfold lrA. rewrite aupd_same. simpl. lia. }
      pose proof (IH _ _ _ _ E1 JA P1) as J2.
      pose proof (af_decreases V g _ _ _ _ _ E1) as M2.
      eapply IHl; [exact F|exact J2|].
      destruct P0 as [A|(p' & Lp' & Hp)]; [left; auto|right; exists p'; split; auto].
      eapply Jr_le; [|exact Hp]. eapply map_le_trans; eauto.
    - cbn [bind] in F. eapply IHl; eauto. }
  eapply G; eauto.
Qed.

(* every transition out of a node that has been analysed carries a finite distance *)
Definition Qr (lr : amap) (s : nat) : Prop :=
  forall idx t, nth_error (outs_of g s) idx = Some t ->
    exists pos, nth_error (ins_of g t) pos = Some (s, idx) /\ lr t pos <> None.
Definition analysed (lr : amap) (s : nat) : Prop := s = root \/ exists pos, pos < length (ins_of g s) /\ lr s pos <> None.
Definition InvQ (lr : amap) (s : nat) : Prop := analysed lr s -> is_dec g s = true -> Qr lr s.

Lemma mono_of_le lr lr' : map_le lr' lr -> forall a b, lr a b <> None -> lr' a b <> None.
Proof. intros M a b H. specialize (M a b). destruct (lr' a b), (lr a b); simpl in *; try congruence; contradiction. Qed.

Lemma Qr_mono lr lr' s : map_le lr' lr -> Qr lr s -> Qr lr' s.
Proof. intros M Q idx t N. destruct (Q idx t N) as (pos & Np & F). exists pos. split; auto. eapply mono_of_le; eauto. Qed.

End AfSem.

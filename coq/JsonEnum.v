(* JsonEnum.v -- the values parse_enum emits: every valid leaf is a member of enum, no invalid leaf is
   (Python-)equal to a member, in particular not the filler string (C01 / C02 leaf lemmas for enum / const). *)
From Fences Require Import JsonGen.
From Coq Require Import ZArith Lia.

Lemma str_eqb_true a b : str_eqb a b = true <-> a = b.
Proof. unfold str_eqb. destruct (list_eq_dec Nat.eq_dec a b); split; auto; discriminate. Qed.

Lemma py_eqb_refl a : is_scalar a = true -> py_eqb a a = true.
Proof.
  destruct a as [|b|z|s|l|d]; intros H; try discriminate; unfold py_eqb; cbn.
  - reflexivity.
  - destruct b; reflexivity.
  - apply Z.eqb_refl.
  - apply str_eqb_true. reflexivity.
Qed.

Lemma py_eqb_sym a b : is_scalar a = true -> is_scalar b = true -> py_eqb a b = py_eqb b a.
Proof.
  destruct a as [|x|x|x|x|x], b as [|y|y|y|y|y]; intros Ha Hb; try discriminate; unfold py_eqb; cbn; auto;
    try (destruct x; reflexivity); try (destruct y; reflexivity).
  - destruct x, y; reflexivity.
  - destruct x; apply Z.eqb_sym.
  - destruct y; apply Z.eqb_sym.
  - apply Z.eqb_sym.
  - destruct (str_eqb x y) eqn:E, (str_eqb y x) eqn:E'; auto.
    + apply str_eqb_true in E. subst. rewrite (proj2 (str_eqb_true y y) eq_refl) in E'. discriminate.
    + apply str_eqb_true in E'. subst. rewrite (proj2 (str_eqb_true x x) eq_refl) in E. discriminate.
Qed.

Lemma py_eqb_trans a b c : is_scalar a = true -> is_scalar b = true -> is_scalar c = true ->
  py_eqb a b = true -> py_eqb b c = true -> py_eqb a c = true.
Proof.
  intros Ha Hb Hc. unfold py_eqb.
  destruct (as_num a) as [x|] eqn:Ea, (as_num b) as [y|] eqn:Eb, (as_num c) as [z|] eqn:Ec; intros H1 H2.
  - apply Z.eqb_eq in H1, H2. apply Z.eqb_eq. lia.
  - destruct b as [|[]| | | |], c as [|[]| | | |]; cbn in *; try discriminate.
  - destruct a as [|[]| | | |], b as [|[]| | | |]; cbn in *; try discriminate.
  - destruct a as [|[]| | | |], b as [|[]| | | |]; cbn in *; try discriminate.
  - destruct a as [|[]| | | |], b as [|[]| | | |]; cbn in *; try discriminate.
  - destruct a as [|[]| | | |], b as [|[]| | | |]; cbn in *; try discriminate.
  - destruct b as [|[]| | | |], c as [|[]| | | |]; cbn in *; try discriminate.
  - destruct a as [|[]|x|x|x|x], b as [|[]|y|y|y|y], c as [|[]|z|z|z|z]; cbn in *; try discriminate; auto.
    apply str_eqb_true in H1, H2. apply str_eqb_true. congruence.
Qed.

Lemma pmem_spec a l : pmem a l = true <-> exists x, In x l /\ py_eqb x a = true.
Proof.
  induction l as [|y l IH]; cbn [pmem]; [split; [discriminate|intros (x & [] & _)]|].
  rewrite orb_true_iff, IH. split.
  - intros [H|(x & Hx & E)]; [exists y; split; auto; left; auto|exists x; split; auto; right; auto].
  - intros (x & [->|Hx] & E); [left; auto|right; eauto].
Qed.

Lemma pset_subset l : forall x, In x (pset l) -> In x l.
Proof.
  induction l as [|y l IH]; intros x H; cbn [pset] in H; [destruct H|].
  destruct (pmem y l).
  - destruct H as [->|H]; [left; auto|]. apply filter_In in H. right. apply IH. tauto.
  - destruct H as [->|H]; [left; auto|right; auto].
Qed.

Lemma forallb_In {A} (p : A -> bool) l x : forallb p l = true -> In x l -> p x = true.
Proof. intros H Hx. rewrite forallb_forall in H. auto. Qed.

(* every member of l is (Python-)equal to a member of set(l) *)
Lemma pset_covers l : hashable_all l = true -> forall x, In x l -> pmem x (pset l) = true.
Proof.
  unfold hashable_all. induction l as [|y l IH]; intros Hs x Hx; [destruct Hx|].
  cbn [forallb] in Hs. apply andb_true_iff in Hs. destruct Hs as [Hy Hl].
  cbn [pset]. destruct Hx as [->|Hx].
  - destruct (pmem x l); cbn [pmem]; rewrite (py_eqb_refl x Hy); reflexivity.
  - specialize (IH Hl x Hx). assert (Sx : is_scalar x = true) by (eapply forallb_In; eauto).
    destruct (pmem y l) eqn:My; cbn [pmem].
    + destruct (py_eqb y x) eqn:E; [reflexivity|]. cbn [orb].
      apply pmem_spec in IH. destruct IH as (z & Hz & Ez). apply pmem_spec. exists z. split; auto.
      apply filter_In. split; auto. apply negb_true_iff.
      destruct (py_eqb z y) eqn:E2; auto.
      assert (Sz : is_scalar z = true) by (eapply forallb_In; [exact Hl|apply pset_subset; exact Hz]).
      rewrite (py_eqb_sym z y Sz Hy) in E2.
      rewrite (py_eqb_trans y z x Hy Sz Sx E2 Ez) in E. discriminate.
    + rewrite IH. apply orb_true_r.
Qed.

(* ---------- the value lists of parse_enum (defined next to it in JsonGen.v) ---------- *)
Theorem enum_valid_member ne en v : In v (enum_valid ne en) -> In v en.
Proof. unfold enum_valid, pdiff. intros H. apply filter_In in H. apply pset_subset. tauto. Qed.

Lemma fold_max_ge l : forall m0 v, In v l -> pystr_len v <= fold_left (fun m v => Nat.max m (pystr_len v)) l m0.
Proof.
  induction l as [|y l IH]; intros m0 v H; [destruct H|]. cbn [fold_left]. destruct H as [->|H].
  - clear IH. assert (G : forall l' m', m' <= fold_left (fun m v => Nat.max m (pystr_len v)) l' m').
    { induction l' as [|z l' IHl]; intros m'; cbn [fold_left]; [apply le_n|]. eapply Nat.le_trans; [apply Nat.le_max_l|apply IHl]. }
    eapply Nat.le_trans; [apply Nat.le_max_r|apply G].
  - apply IH. exact H.
Qed.

(* when enum and NOT_enum share no value, nothing is removed from set(enum) *)
Lemma enum_valid_all ne en : hashable_all ne = true -> hashable_all en = true ->
  forall x, In x (pset en) -> In x (enum_valid ne en).
Proof.
  intros Hn He x Hx. unfold enum_valid, pdiff. apply filter_In. split; auto. apply negb_true_iff.
  destruct (pmem x (enum_invalid ne en)) eqn:M; auto. exfalso.
  apply pmem_spec in M. destruct M as (y & Hy & E).
  unfold enum_invalid, pdiff in Hy. apply filter_In in Hy. destruct Hy as [Hy1 Hy2].
  apply negb_true_iff in Hy2.
  assert (pmem y (pset en) = true); [|congruence].
  apply pmem_spec. exists x. split; auto.
  assert (Sx : is_scalar x = true) by (eapply forallb_In; [exact He|apply pset_subset; exact Hx]).
  assert (Sy : is_scalar y = true) by (eapply forallb_In; [exact Hn|apply pset_subset; exact Hy1]).
  rewrite (py_eqb_sym x y Sx Sy). exact E.
Qed.

(* C02 leaf: no invalid leaf of an enum is equal to a member of the enum *)
Theorem enum_invalid_not_member ne en x : hashable_all ne = true -> hashable_all en = true ->
  In x (enum_invalid' ne en) -> pmem x en = false.
Proof.
  intros Hn He Hx.
  assert (Inv : forall y, In y (enum_invalid ne en) -> pmem y en = false).
  { intros y Hy. unfold enum_invalid, pdiff in Hy. apply filter_In in Hy. destruct Hy as [Hy1 Hy2].
    apply negb_true_iff in Hy2. destruct (pmem y en) eqn:M; auto. exfalso.
    apply pmem_spec in M. destruct M as (m & Hm & E).
    pose proof (pset_covers en He m Hm) as C. apply pmem_spec in C. destruct C as (m' & Hm' & E').
    assert (pmem y (pset en) = true); [|congruence].
    apply pmem_spec. exists m'. split; auto.
    assert (Sy : is_scalar y = true) by (eapply forallb_In; [exact Hn|apply pset_subset; exact Hy1]).
    assert (Sm : is_scalar m = true) by (eapply forallb_In; eauto).
    assert (Sm' : is_scalar m' = true) by (eapply forallb_In; [exact He|apply pset_subset; exact Hm']).
    exact (py_eqb_trans m' m y Sm' Sm Sy E' E). }
  unfold enum_invalid' in Hx.
  destruct (pmem (enum_filler (enum_valid ne en)) (enum_invalid ne en)); [auto|].
  apply in_app_or in Hx. destruct Hx as [Hx|[<-|[]]]; [auto|].
  (* the filler is longer than every string the enum contains *)
  destruct (pmem (enum_filler (enum_valid ne en)) en) eqn:M; auto. exfalso.
  apply pmem_spec in M. destruct M as (m & Hm & E).
  pose proof (pset_covers en He m Hm) as C. apply pmem_spec in C. destruct C as (m' & Hm' & E').
  pose proof (enum_valid_all ne en Hn He m' Hm') as V.
  pose proof (fold_max_ge (enum_valid ne en) 0 m' V) as Lm. fold (enum_maxlen (enum_valid ne en)) in Lm.
  unfold enum_filler in E. set (k := enum_maxlen (enum_valid ne en)) in *.
  destruct m as [|b|z|s|l|d]; unfold py_eqb in E; cbn in E; try discriminate; try (destruct b; discriminate).
  apply str_eqb_true in E. subst s.
  destruct m' as [|b|z|s'|l|d]; unfold py_eqb in E'; cbn in E'; try discriminate; try (destruct b; discriminate).
  apply str_eqb_true in E'. subst s'. cbn [pystr_len length] in Lm. rewrite repeat_length in Lm. lia.
Qed.

(* C01 leaf for strings: the one string parse_string emits (minLength times "x") satisfies both length bounds
   whenever parse_string accepts the pair of bounds *)
Theorem string_valid_ok (mn : nat) (mx : option Z) :
  (match mx with Some m => Z.ltb m (Z.of_nat mn) | None => false end) = false ->
  mn <= length (repeat 120 mn) /\ forall m, mx = Some m -> (Z.of_nat (length (repeat 120%nat mn)) <= m)%Z.
Proof.
  intros H. rewrite !repeat_length. split; [apply le_n|]. intros m ->. apply Z.ltb_ge in H. exact H.
Qed.

(* C12 (enum): every member of the enum is (Python-)equal to a value that becomes a valid leaf, and there is always
   a non-member among the invalid leaves *)
Theorem enum_members_covered en m : hashable_all en = true -> In m en -> pmem m (enum_valid [] en) = true.
Proof.
  intros He Hm. pose proof (pset_covers en He m Hm) as C. apply pmem_spec in C. destruct C as (m' & Hm' & E').
  apply pmem_spec. exists m'. split; auto. apply (enum_valid_all [] en eq_refl He m' Hm').
Qed.

Theorem enum_nonmember_present ne en : hashable_all ne = true -> hashable_all en = true ->
  exists x, In x (enum_invalid' ne en) /\ pmem x en = false.
Proof.
  intros Hn He.
  assert (X : exists x, In x (enum_invalid' ne en)).
  { unfold enum_invalid'. destruct (pmem (enum_filler (enum_valid ne en)) (enum_invalid ne en)) eqn:M.
    - apply pmem_spec in M. destruct M as (x & Hx & _). eauto.
    - exists (enum_filler (enum_valid ne en)). apply in_or_app. right. left. reflexivity. }
  destruct X as (x & Hx). exists x. split; [exact Hx|]. exact (enum_invalid_not_member ne en x Hn He Hx).
Qed.

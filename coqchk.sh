#!/bin/bash
# Independent re-check of every compiled property file (and everything it depends on) with coqchk; prints the
# context summary (axioms, type-in-type, unsafe fixpoints, assumed positivity).  Not part of the registered checks (cost).
cd "$(dirname "$0")/coq" || exit 2
mods=$(ls Properties/C*.v | sed 's#Properties/\(.*\)\.v#Fences.Properties.\1#')
exec coqchk -o -silent -Q . Fences $mods

"""C01 / C02 / C12: JSON Schema samples against a Draft 2020-12 validator; stream J (parse.py model)."""
import random, json, copy, sys
import fences_env
from common import Check, run_driver, json_corpus
import jsonschemas as J, graphs, regexes as R

fences_env.load()
import jsonschema  # noqa: E402
from fences.json_schema import parse as P  # noqa: E402
from fences.json_schema.normalize import normalize  # noqa: E402
from fences.core.exception import FencesException  # noqa: E402

VAR = ["1", "1", "1", "1"]       # graph variant flags + normaliser variant
FUEL = 600
SUPPORTED = {"type", "enum", "minimum", "maximum", "exclusiveMinimum", "exclusiveMaximum", "multipleOf", "minLength",
             "maxLength", "properties", "required", "items", "prefixItems", "minItems", "contains", "minContains", "$ref"}


# ---------------------------------------------------------------------------------------------
# generator for the C01 / C02 dialect
def gen_leafy(rng):
    m = rng.random()
    if m < 0.12:
        return {"enum": rng.sample(["x", "y", 1, 2, 7, None, "zz", "long-value", "#", "##", "###", ""], rng.choice([1, 2, 3]))}
    if m < 0.17:
        return {"const": rng.choice(["x", 1, None, None, False, 0, ""])}
    if m < 0.27:
        # numbers around zero and below it, with and without multipleOf
        d = {"type": rng.choice(["number", "integer"])}
        b = rng.randint(-9, 9)
        k = rng.random()
        if k < 0.4:
            d[rng.choice(["maximum", "exclusiveMaximum"])] = b
        elif k < 0.7:
            d[rng.choice(["minimum", "exclusiveMinimum"])] = b
        else:
            d["minimum"] = b
            d["maximum"] = b + rng.randint(0, 7)
        if rng.random() < 0.6:
            d["multipleOf"] = rng.choice([2, 3, 5, 7])
        return d
    d = {}
    t = rng.random()
    if t < 0.6:
        d["type"] = rng.choice(J.TYPES)
    elif t < 0.8:
        d["type"] = rng.sample(J.TYPES, rng.choice([1, 2, 3]))
    k = rng.random()
    if k < 0.25:
        lo = rng.randint(-6, 6)
        d[rng.choice(["minimum", "exclusiveMinimum"])] = lo
        if rng.random() < 0.5:
            d[rng.choice(["maximum", "exclusiveMaximum"])] = lo + rng.randint(2, 8)
    elif k < 0.4:
        d[rng.choice(["maximum", "exclusiveMaximum"])] = rng.randint(-8, 8)
    if rng.random() < 0.2:
        d["multipleOf"] = rng.choice([1, 2, 3, 5])
    if rng.random() < 0.2:
        d["minLength"] = rng.randint(0, 3)
        if rng.random() < 0.5:
            d["maxLength"] = d["minLength"] + rng.randint(0, 3)
    elif rng.random() < 0.1:
        d["maxLength"] = rng.randint(0, 4)
    return d


def tighten(rng, s):
    """a schema of the same type as s with one more bound (conjoined with s it is the stricter of the two)"""
    if not isinstance(s, dict) or not isinstance(s.get("type"), str):
        return gen_leafy(rng)
    t = dict(s)
    if t["type"] == "string":
        t["minLength"] = max(t.get("minLength", 0), 0) + 2
        t.pop("maxLength", None)
    elif t["type"] in ("number", "integer"):
        t["minimum"] = rng.choice([10, 100])
        t.pop("maximum", None), t.pop("exclusiveMaximum", None)
    else:
        return gen_leafy(rng)
    return t


def items_only(rng, prefix):
    """a conjunct that only has 'items' (it must still reach the positions another conjunct lists in prefixItems)"""
    return {"items": tighten(rng, rng.choice(prefix))}


def gen_tuple(rng):
    """arrays with prefixItems and items, alone or as a conjunction of two tuple schemas of different length"""
    a = {"type": "array", "prefixItems": [gen_leafy(rng) for _ in range(rng.choice([1, 2, 2]))], "items": gen_leafy(rng)}
    if rng.random() < 0.5:
        return a
    if rng.random() < 0.3:
        del a["items"]
        b = items_only(rng, a["prefixItems"])
        return {"allOf": [a, b] if rng.random() < 0.7 else [b, a]}
    b = {"prefixItems": [gen_leafy(rng) for _ in range(rng.choice([1, 1, 3]))]}
    if rng.random() < 0.4:
        b["items"] = gen_leafy(rng)
    return {"allOf": [a, b] if rng.random() < 0.6 else [b, a]}


def gen_c01(rng, depth, refs, allow_anyof=True):
    if rng.random() < 0.04:
        return rng.random() < 0.8
    if depth > 0 and rng.random() < 0.14:
        return gen_tuple(rng)
    if depth <= 0:
        return gen_leafy(rng)
    d = gen_leafy(rng)
    if "enum" in d or "const" in d:
        return d
    m = rng.random()
    if m < 0.35:
        names = rng.sample(J.NAMES, rng.choice([1, 2, 2, 3]))
        if "type" in d and rng.random() < 0.75:      # mostly a type under which the object keywords matter
            d["type"] = rng.choice(["object", "object", ["object", "null"], ["string", "object"]])
        d["properties"] = {n: gen_c01(rng, depth - 1, refs, allow_anyof) for n in names}
        k = rng.random()
        if k < 0.3:
            d["required"] = rng.sample(J.NAMES + ["u"], rng.choice([1, 2]))
        elif k < 0.65:
            # several declared properties required at once (each of them must also be generated absent)
            req = [n for n in names if rng.random() < 0.8] or names[:1]
            if rng.random() < 0.2:
                req.append("u")
            rng.shuffle(req)
            d["required"] = req
    elif m < 0.55:
        if "type" in d and rng.random() < 0.75:
            d["type"] = rng.choice(["array", "array", ["array", "null"], ["array", "number"]])
        k = rng.random()
        if k < 0.55:
            d["items"] = gen_c01(rng, depth - 1, refs, allow_anyof)
            if rng.random() < 0.4:
                d["minItems"] = rng.choice([0, 1, 2, 3])
        elif k < 0.8:
            d["prefixItems"] = [gen_c01(rng, depth - 1, refs, allow_anyof) for _ in range(rng.choice([1, 2]))]
            if rng.random() < 0.6:
                d["items"] = gen_c01(rng, depth - 1, refs, allow_anyof)
            if rng.random() < 0.3:
                # conjunction of two tuple schemas of different length (the shorter one is padded with its items)
                other = {"prefixItems": [gen_leafy(rng) for _ in range(rng.choice([1, 3]))]}
                if rng.random() < 0.5:
                    other["items"] = gen_leafy(rng)
                if "items" not in d and rng.random() < 0.5:
                    other = items_only(rng, d["prefixItems"])
                d = {"allOf": [d, other] if rng.random() < 0.5 else [other, d]}
        else:
            d["contains"] = gen_c01(rng, depth - 1, refs, allow_anyof)
            if rng.random() < 0.4:
                d["minContains"] = rng.choice([1, 2, 3])
            if rng.random() < 0.35:
                # an explicit minItems below, at and above the number of contained elements
                d["minItems"] = max(0, d.get("minContains", 1) + rng.choice([-1, 0, 0, 1, 2]))
    k = rng.random()
    if k < 0.15:
        d["allOf"] = [gen_c01(rng, depth - 1, refs, allow_anyof) for _ in range(rng.choice([1, 2]))]
    elif k < 0.3 and allow_anyof:
        d["anyOf"] = [gen_c01(rng, depth - 1, refs, allow_anyof) for _ in range(rng.choice([2, 3]))]
    elif k < 0.42 and refs:
        d["$ref"] = rng.choice(refs)
    return d


def gen_doc(rng, allow_anyof=True):
    n_defs = rng.choice([0, 0, 1, 2])
    names = ["D%d" % i for i in range(n_defs)]
    refs = ["#/$defs/" + n for n in names]
    doc = gen_c01(rng, rng.choice([1, 2, 3]), refs, allow_anyof)
    if not isinstance(doc, dict) or not names:
        return doc
    defs = {}
    for n in names:
        s = gen_c01(rng, 2, [], allow_anyof)
        if isinstance(s, dict) and "enum" not in s and "const" not in s and rng.random() < 0.5:
            r = {"$ref": rng.choice(refs + ["#"] if rng.random() < 0.3 else refs)}
            pos = rng.choice(["properties", "items", "prefixItems"])
            if pos == "properties":
                s.setdefault("properties", {})[rng.choice(J.NAMES)] = r
            elif pos == "items":
                s["items"] = r
                s.setdefault("minItems", 0) if rng.random() < 0.5 else None
            else:
                s["prefixItems"] = [r]
        defs[n] = s
    doc["$defs"] = defs
    return doc


def gen_ref_twins(rng):
    """one definition referenced twice, with and without sibling constraints, at different depths and in either order
    (what is computed for one use must not be served for the other)"""
    base = rng.choice([{"type": "number"}, {"type": "integer"}, {"type": "string"}, {"type": ["number", "string"]}])
    if "string" in json.dumps(base) and "number" not in json.dumps(base):
        extra = rng.choice([{"minLength": 3}, {"maxLength": 2}])
    else:
        extra = rng.choice([{"minimum": 10}, {"maximum": 4}, {"minimum": 2, "maximum": 6}])
    strong = dict({"$ref": "#/$defs/D"}, **extra)
    weak = {"$ref": "#/$defs/D"}
    deep = lambda x: {"type": "object", "properties": {"x": x}}
    a, b = rng.choice([(deep(strong), weak), (strong, deep(weak)), (deep(weak), strong), (weak, deep(strong)), (strong, weak)])
    names = rng.sample(J.NAMES, 2) if len(J.NAMES) >= 2 else ["a", "y"]
    if rng.random() < 0.5:
        names.sort()
    doc = {"type": "object", "properties": {names[0]: a, names[1]: b}, "$defs": {"D": base}}
    if rng.random() < 0.3:
        doc["required"] = [names[0]]
    return doc


def gen_same_twice(rng):
    """the same sub-schema text at two different places of one schema (two properties, a property and the items of a sibling
    array, prefixItems[0] and items, two equal nested objects): every place keeps its own counter-examples"""
    x = gen_leafy(rng)
    while not (isinstance(x, dict) and "type" in x):
        x = gen_leafy(rng)
    if rng.random() < 0.3:
        x = {"type": "object", "properties": {"k": x}, "required": ["k"]}
    y = lambda: copy.deepcopy(x)
    m = rng.random()
    if m < 0.4:
        names = rng.sample(J.NAMES, 2)
        doc = {"type": "object", "properties": {names[0]: y(), names[1]: y()}, "required": names if rng.random() < 0.7 else names[:1]}
    elif m < 0.65:
        doc = {"type": "object", "properties": {"a": y(), "b": {"type": "array", "items": y()}}, "required": ["a", "b"]}
    elif m < 0.85:
        doc = {"type": "array", "prefixItems": [y()], "items": y(), "minItems": 2}
    else:
        doc = {"type": "array", "prefixItems": [y(), y()], "minItems": 2}
    return doc


def gen_shared_under_do_all(rng):
    """one definition used by several children of one object / one items node under several array slots, the object or
    array standing next to a sibling that has counter-examples of its own (it is then completed by the generator while
    a leaf of the sibling is targeted)"""
    D = rng.choice([{"type": "boolean"}, {"type": "string", "minLength": 1}, {"type": "integer", "minimum": 2}, {"enum": ["u", "v"]}])
    names = rng.sample(J.NAMES, 2)
    inner = {"type": "object", "properties": {names[0]: {"$ref": "#/$defs/D"}, names[1]: {"$ref": "#/$defs/D"}}, "required": list(names)}
    sib = rng.choice([{"type": "number", "minimum": 3}, {"type": "string", "maxLength": 2}, {"type": "boolean"}])
    m = rng.random()
    if m < 0.4:
        doc = {"type": "object", "properties": {"p": inner, "q": sib}, "required": ["p"] if rng.random() < 0.6 else ["p", "q"]}
    elif m < 0.7:
        doc = {"type": "array", "minItems": rng.choice([2, 3]), "items": inner}
    elif m < 0.85:
        doc = {"type": "object", "properties": {"p": {"type": "array", "items": {"$ref": "#/$defs/D"}, "minItems": rng.choice([2, 3])}, "q": sib}, "required": ["p"]}
    else:
        doc = {"type": "object", "properties": {"p": {"type": "array", "contains": {"$ref": "#/$defs/D"}, "minContains": 2}, "q": sib}, "required": ["p"]}
    doc["$defs"] = {"D": D}
    return doc


def gen_props_times_anyof(rng):
    """an object schema that declares a property, conjoined (allOf, or a reference with sibling keywords) with a
    disjunction whose alternatives constrain the same property differently and are told apart by another required name:
    multiplying the conjunction out must keep the alternatives' constraints apart"""
    p = rng.choice(J.NAMES)
    others = [n for n in J.NAMES if n != p]
    rng.shuffle(others)
    k = rng.choice([2, 2, 3])
    if rng.random() < 0.7:
        base = {"type": rng.choice(["number", "integer"])}
        cs = rng.sample([{"minimum": 5}, {"maximum": 3}, {"minimum": 20, "maximum": 30}, {"multipleOf": 4}], k)
    else:
        base = {"type": "string"}
        cs = rng.sample([{"minLength": 4}, {"maxLength": 2}, {"minLength": 1, "maxLength": 3}], k)
    head = {"type": "object", "properties": {p: base}, "required": [p]}
    alts = [{"properties": {p: c}, "required": [others[i % len(others)]]} for i, c in enumerate(cs)]
    m = rng.random()
    if m < 0.5:
        doc = {"allOf": [head, {"anyOf": alts}]}
    elif m < 0.75:
        doc = {"allOf": [{"anyOf": alts}, head]}
    else:
        doc = {"$ref": "#/$defs/H", "anyOf": alts, "$defs": {"H": head}}
    if rng.random() < 0.3 and "$defs" not in doc:
        doc = {"type": "object", "properties": {"w": doc}, "required": ["w"]}
    return doc


def vary(rng, doc):
    """a document near [doc]: some leaf-like sub-schemas replaced by fresh ones, some keywords dropped"""
    d = copy.deepcopy(doc)

    def go(s, depth):
        if not isinstance(s, dict):
            return s
        for k in list(s.keys()):
            v = s[k]
            if k in ("properties",) and isinstance(v, dict):
                for n in list(v.keys()):
                    v[n] = gen_leafy(rng) if rng.random() < 0.3 else go(v[n], depth + 1)
            elif k in ("items", "contains") and isinstance(v, dict):
                s[k] = gen_leafy(rng) if rng.random() < 0.3 else go(v, depth + 1)
            elif k in ("prefixItems", "allOf", "anyOf") and isinstance(v, list):
                s[k] = [gen_leafy(rng) if (rng.random() < 0.25 and k == "prefixItems") else go(x, depth + 1) for x in v]
            elif k == "$defs" and isinstance(v, dict):
                for n in list(v.keys()):
                    v[n] = go(v[n], depth + 1)
            elif k in ("minimum", "maximum", "exclusiveMinimum", "exclusiveMaximum", "minItems", "minLength", "maxLength", "multipleOf") and rng.random() < 0.15:
                del s[k]
            elif k in ("minimum", "maximum", "exclusiveMinimum", "exclusiveMaximum") and rng.random() < 0.25:
                s[k] = rng.choice([0, 0, 1, -1])
        return s
    return go(d, 0)


def conjuncts(nf):
    """every alternative of every (nested) normal form, incl. $defs"""
    out = []

    def walk(s):
        if not isinstance(s, dict):
            return
        for alt in s.get("anyOf", []) if isinstance(s.get("anyOf"), list) else []:
            if isinstance(alt, dict):
                out.append(alt)
                for k in ("items", "contains", "additionalProperties"):
                    if k in alt:
                        walk(alt[k])
                for v in (alt.get("properties") or {}).values():
                    walk(v)
                for v in alt.get("prefixItems") or []:
                    walk(v)
    walk(nf)
    for v in (nf.get("$defs") or {}).values() if isinstance(nf, dict) else []:
        walk(v)
    return out


def dialect01(nf):
    """side conditions of the C01/C02 quantifier, evaluated on the normal form (so that they hold
    'also after conjunction through allOf / $ref')"""
    for alt in conjuncts(nf):
        keys = set(alt.keys())
        if not keys <= SUPPORTED:
            return False
        if "enum" in keys and keys != {"enum"}:
            return False
        if "enum" in keys and any(isinstance(v, (list, dict)) for v in alt["enum"]):
            return False
        if len(keys & {"minimum", "exclusiveMinimum"}) > 1 or len(keys & {"maximum", "exclusiveMaximum"}) > 1:
            return False
        lo = alt.get("minimum", alt.get("exclusiveMinimum", None))
        hi = alt.get("maximum", alt.get("exclusiveMaximum", None))
        if "exclusiveMinimum" in keys:
            lo = lo + 1
        if "exclusiveMaximum" in keys:
            hi = hi - 1
        if lo is not None and hi is not None and lo > hi:
            return False
        if "multipleOf" in keys and lo is not None and hi is not None:
            m = alt["multipleOf"]
            if m and not any((x % m) == 0 for x in range(int(lo), int(hi) + 1)):
                return False                      # no multiple inside the range: the conjunction is empty
        if alt.get("minLength", 0) > alt.get("maxLength", 10 ** 9):
            return False
        if "contains" in keys and (keys & {"items", "prefixItems"}):
            return False
        t = alt.get("type")
        if isinstance(t, list) and len(t) == 0:
            pass
    return True


def has(doc, *kws):
    txt = json.dumps(doc)
    return any('"%s"' % k in txt for k in kws)


# ---------------------------------------------------------------------------------------------
def jpayload(n):
    if isinstance(n, P.SetValueLeaf):
        try:
            return "=" + ",".join(J.enc_json(n.value))
        except ValueError:
            return "=~" + repr(n.value)
    if isinstance(n, P.InsertKeyNode):
        return "K" + R.tok(n.key)
    if isinstance(n, P.CreateArrayNode):
        return "A"
    if isinstance(n, P.AppendArrayItemNode):
        return "+"
    if isinstance(n, P.CreateObjectNode):
        return "{"
    if isinstance(n, P.CreateInputNode):
        return "I"
    if isinstance(n, P.FetchOutputNode):
        return "O"
    return "-"


def generate(doc, normalized=False):
    """(graph, [(entry, sample)], error)"""
    try:
        if normalized:
            cfg = P.default_config()
            cfg.normalize = False
            g = P.parse(copy.deepcopy(doc), cfg)
        else:
            g = P.parse(copy.deepcopy(doc))
    except Exception as e:  # noqa
        return None, [], graphs.err_str(e)
    out, err = [], None
    try:
        for e in g.generate_paths():
            out.append((e, copy.deepcopy(g.execute(e.path))))
    except Exception as e:  # noqa
        err = graphs.err_str(e)
    return g, out, err


def observe(doc, normalized):
    g, pairs, err = generate(doc, normalized)
    if g is None:
        return "parse=" + err
    dump, num = R.dump_canon(g, jpayload)
    out = ["graph=" + dump]
    out.append("entries=" + ";".join("%d/%s/%d" % (num.get(id(e.target), -1), graphs.ints(e.path), int(e.is_valid)) for e, _ in pairs)
               + "|status=" + (err or "ok:"))
    ss = []
    for _, s in pairs:
        try:
            ss.append("ok:" + ",".join(J.enc_json(s)))
        except ValueError:
            ss.append("ok:~float")
    out.append("samples=" + ";".join(ss))
    return "|".join(out)


# ---------------------------------------------------------------------------------------------
def has_unsat_leaf(doc):
    """The normal form of the schema has an array alternative whose elements cannot be satisfied by the generator: a prefix
    entry, or (without minItems) the items schema, has only alternatives with an empty type list or an empty enum, or that
    are again such arrays (every prefix entry is generated, and one element for 'items' when minItems is absent).
    A shorter array is then the only instance there."""
    try:
        nf = normalize(copy.deepcopy(doc))
    except Exception:  # noqa
        return False

    def types(a):
        t = a.get("type")
        return t if isinstance(t, list) else [t] if isinstance(t, str) else None

    def stuck_array(a, top=False):
        # every prefix entry is generated, and one element for 'items' when minItems is absent (or >= 1)
        if (types(a) != ["array"]) if not top else not (types(a) is None or "array" in types(a)):
            return False                  # (inside: the whole alternative must be stuck; at the top: its array part)
        if any(unsat(x) for x in (a.get("prefixItems") or []) if isinstance(a.get("prefixItems"), list)):
            return True
        if top and "minItems" in a:
            return False
        return isinstance(a.get("items"), dict) and a.get("minItems", 1) >= 1 and unsat(a["items"])

    def unsat(s):
        if s is False:
            return True
        if not isinstance(s, dict) or not isinstance(s.get("anyOf"), list):
            return False
        return all(isinstance(a, dict) and "$ref" not in a and (types(a) == [] or a.get("enum") == [] or stuck_array(a) or stuck_object(a)) for a in s["anyOf"])

    def stuck_object(a):
        # an object alternative one of whose required properties cannot be satisfied
        props = a.get("properties") if isinstance(a.get("properties"), dict) else {}
        return types(a) == ["object"] and any(r in props and unsat(props[r]) for r in (a.get("required") or []))
    return any(stuck_array(a, top=True) for a in conjuncts(nf))


def oracle_c01(doc):
    g, pairs, err = generate(doc)
    if g is None:
        return []
    res = []
    if err == "fuel":
        return []           # non-termination on recursive schemas is the subject of C11, not of C01
    if err:
        return [("generation-raises", "generate_paths/execute raises %s" % err)]
    v = jsonschema.Draft202012Validator(doc)
    for e, s in pairs:
        if e.is_valid and not v.is_valid(s):
            res.append(("valid-sample-rejected", "sample %s is labelled valid but the validator rejects it" % json.dumps(s), s))
            break
    if pairs and not any(e.is_valid for e, _ in pairs) and any(v.is_valid(s) for _, s in pairs):
        ok = next(s for _, s in pairs if v.is_valid(s))
        sig = "no-valid-sample"
        if isinstance(doc, dict) and '"$ref"' in json.dumps(doc):
            # classification for the known-findings file: recursion that cannot bottom out because arrays are only
            # generated at their full declared length (see C11)
            import c11
            for name, variant in (("recursion-through-array-items-generated-non-empty", c11.with_empty_arrays(doc)),
                                  ("recursion-through-prefix-items-generated-in-full", c11.with_empty_arrays(c11.without_prefix_items(doc)))):
                try:
                    g2, pairs2, err2 = generate(variant)
                except Exception:  # noqa
                    continue
                if g2 is not None and not err2 and any(e.is_valid for e, _ in pairs2):
                    sig += ":" + name
                    break
        elif isinstance(doc, dict) and has_unsat_leaf(doc):
            # an array whose items cannot be satisfied (false, empty enum) has the empty array as its only instance, and
            # arrays are generated with one item when minItems is absent
            import c11
            for variant in (c11.with_empty_arrays(doc), c11.with_empty_arrays(c11.without_prefix_items(doc))):
                try:
                    g2, pairs2, err2 = generate(variant)
                    if g2 is not None and not err2 and any(e.is_valid for e, _ in pairs2):
                        sig += ":unsatisfiable-items-generated-non-empty"
                        break
                except Exception:  # noqa
                    pass
        res.append((sig, "no sample is labelled valid although the schema is satisfiable (the generated %s is accepted)" % json.dumps(ok), ok))
    return res


def without_contains_fillers(doc):
    """the same schema with minItems lowered to minContains wherever an array has 'contains' (and no items / prefixItems):
    no element is generated beyond the contained ones"""
    def go(s):
        if isinstance(s, dict):
            out = {k: ([go(x) for x in v] if isinstance(v, list) else go(v)) if k not in ("enum", "const", "required") else v for k, v in s.items()}
            if "contains" in s and "items" not in s and "prefixItems" not in s and isinstance(s.get("minItems"), int):
                out["minItems"] = min(s["minItems"], s.get("minContains", 1))
            return out
        return s
    return go(doc)


def oracle_c02(doc, classify_fillers=True):
    g, pairs, err = generate(doc)
    if g is None or err:
        return []
    v = jsonschema.Draft202012Validator(doc)
    for e, s in pairs:
        if not e.is_valid and v.is_valid(s):
            sig = "invalid-sample-accepted"
            if classify_fillers and isinstance(doc, dict) and has(doc, "contains"):
                # listed finding: the elements appended to reach minItems (default samples) can themselves match 'contains'
                # and make up for the contained element that was spoilt; gone once no filler is generated
                try:
                    var = without_contains_fillers(doc)
                    if var != doc and not oracle_c02(var, classify_fillers=False):
                        sig += ":fillers-match-contains"
                except Exception:  # noqa
                    pass
            return [(sig, "sample %s is labelled invalid but the validator accepts it" % json.dumps(s), s)]
    return []


def relaxations(doc):
    """single-constraint relaxations of C12, at any depth reachable through properties / items / prefixItems of
    objects and of arrays generated non-empty"""
    out = []

    def walk(s, path):
        if not isinstance(s, dict):
            return
        if "type" in s:
            out.append((path + ["type"], "type"))
        for r in s.get("required", []):
            if r in s.get("properties", {}):
                out.append((path + ["required", r], "required"))
        if not has(doc, "multipleOf"):      # 'a number without multipleOf', also through allOf / $ref: conservative
            for b in ("minimum", "maximum", "exclusiveMinimum", "exclusiveMaximum"):
                if b in s:
                    out.append((path + [b], "bound"))
        for n, p in (s.get("properties") or {}).items():
            walk(p, path + ["properties", n])
        if s.get("minItems", 1) >= 1:
            if isinstance(s.get("items"), dict):
                walk(s["items"], path + ["items"])
            for i, p in enumerate(s.get("prefixItems") or []):
                walk(p, path + ["prefixItems", i])
    walk(doc, [])
    return out


def relax(doc, path):
    d = copy.deepcopy(doc)
    cur = d
    isreq = len(path) >= 2 and path[-2] == "required"
    for k in path[:-2] if isreq else path[:-1]:
        cur = cur[k]
    if isreq:
        cur["required"] = [r for r in cur["required"] if r != path[-1]]
    else:
        del cur[path[-1]]
    return d


def plant(sample, spath, x):
    """the samples obtained from [sample] by putting x at the instance position the schema path names
    (properties/<n>, items, prefixItems/<i>); [] when the sample has no such position"""
    def go(val, sp):
        if not sp:
            return [copy.deepcopy(x)]
        k = sp[0]
        if k == "properties" and len(sp) >= 2 and isinstance(val, dict) and sp[1] in val:
            return [dict(val, **{sp[1]: y}) for y in go(val[sp[1]], sp[2:])]
        if k == "items" and isinstance(val, list):
            out = []
            for i in range(len(val)):
                out += [val[:i] + [y] + val[i + 1:] for y in go(val[i], sp[1:])]
            return out
        if k == "prefixItems" and len(sp) >= 2 and isinstance(val, list) and isinstance(sp[1], int) and sp[1] < len(val):
            return [val[:sp[1]] + [y] + val[sp[1] + 1:] for y in go(val[sp[1]], sp[2:])]
        return []
    return go(sample, list(spath))


def oracle_c12(doc):
    g, pairs, err = generate(doc)
    if g is None or err or not pairs:
        return []
    res = []
    v = jsonschema.Draft202012Validator(doc)
    verdicts = [v.is_valid(s) for _, s in pairs]
    for path, kind in relaxations(doc):
        d2 = relax(doc, path)
        if not J.metaschema_ok(d2):
            continue
        v2 = jsonschema.Draft202012Validator(d2)
        # the relaxation must really accept more (a removed 'type' next to an enum changes nothing, ...)
        if all(v2.is_valid(s) == a for (_, s), a in zip(pairs, verdicts)):
            # is the relaxed schema distinguishable at all?  try the instance grid
            grid = J.instance_grid(doc, random.Random(5), limit=60)
            if not any(v2.is_valid(x) != v.is_valid(x) for x in grid):
                continue
            why = ""
            try:
                nf = normalize(copy.deepcopy(doc))
                if any(alt.get("type") == [] for alt in conjuncts(nf)):
                    why = ":empty-type-intersection"
                elif has_unsat_leaf(doc):
                    # an array alternative whose prefix entry / items cannot be satisfied by the generator (false, empty enum):
                    # every sample through it is invalid already, whatever else is relaxed
                    why = ":unsatisfiable-items-generated-non-empty"
                elif kind == "type":
                    # The counter-examples for forbidden types are the fixed default samples, placed where the 'type' keyword
                    # stands.  Judged on the sub-schema that carries the keyword (with the document's $defs): if every default
                    # sample that the relaxed sub-schema would newly admit is rejected by another keyword of that sub-schema,
                    # this is the listed finding; any other unfenced type is reported.
                    defaults = ["string", 42, None, True, False, {}, []]
                    sub = doc
                    for k in path[:-1]:
                        sub = sub[k]
                    if len(path) == 1 or '"$ref": "#"' not in json.dumps(sub):     # ('#' would name the wrapper below)
                        a = dict(sub)
                        b = {k: x for k, x in sub.items() if k != "type"}
                        if len(path) > 1 and isinstance(doc.get("$defs"), dict):
                            a.setdefault("$defs", doc["$defs"])
                            b.setdefault("$defs", doc["$defs"])
                        va, vb = jsonschema.Draft202012Validator(a), jsonschema.Draft202012Validator(b)
                        if not any(vb.is_valid(x) and not va.is_valid(x) for x in defaults):
                            why = ":default-samples-of-the-freed-types-violate-another-constraint"
                    if not why and len(path) > 1:
                        # the other constraint may reach the position from another conjunct (allOf / $ref next to it): put
                        # each default sample at that position of every valid generated sample and judge the whole documents
                        tried = 0
                        hit = False
                        for e, smp in pairs:
                            if not (e.is_valid and v.is_valid(smp)):
                                continue
                            for x in defaults:
                                for y in plant(smp, path[:-1], x):
                                    tried += 1
                                    if v2.is_valid(y) and not v.is_valid(y):
                                        hit = True
                        if tried and not hit:
                            why = ":default-samples-of-the-freed-types-violate-another-constraint"
                elif not any(e.is_valid for e, _ in pairs):
                    why = ":no-valid-sample"
            except Exception:  # noqa
                pass
            res.append(("relaxation-not-fenced:" + kind + why, "deleting %s at %s changes the accepted set, but no generated sample gets a different verdict" % (
                kind, "/".join(str(p) for p in path)), path))
    return res


ORACLES = {"C01": oracle_c01, "C02": oracle_c02, "C12": oracle_c12}


def in_scope(pid, doc):
    if isinstance(doc, bool):
        return pid != "C12"
    if pid in ("C02", "C12") and has(doc, "anyOf", "oneOf", "not", "if", "dependentRequired"):
        return False
    try:
        nf = normalize(copy.deepcopy(doc))
    except RecursionError:
        return False
    except Exception:  # noqa
        return False
    if not dialect01(nf):
        return False
    if pid == "C12":
        # enum lists do not mix a boolean with the number equal to it
        for alt in conjuncts(nf):
            en = alt.get("enum", [])
            if any(isinstance(x, bool) for x in en) and any((not isinstance(x, bool)) and x in (0, 1) for x in en):
                return False
    return True


def run(pid, tier):
    import c06
    ck = Check(pid, tier)
    if not ck.coq():
        ck.violation("coq-obligation", "coq/Properties/%s.v no longer checks: %s" % (pid, ck.obl["log"][-300:]),
                     {"theorem": ck.obl["file"]}, found_input=False)
    rng = random.Random(ck.seed * 733 + 41)
    n = 300 if tier == "quick" else 4000
    # the examples of the listed findings first (each is reported as KNOWN-FINDING as long as it still fails), then the corpus
    docs = [k["example"] for k in ck.kf.get("known", []) if k.get("property") == pid and isinstance(k.get("example"), dict)]
    docs += [e["schema"] for e in json_corpus(pid) if isinstance(e["schema"], bool) or J.metaschema_ok(e["schema"])]
    n += len(docs)
    while len(docs) < n:
        m = rng.random()
        d = gen_ref_twins(rng) if m < 0.06 else gen_same_twice(rng) if m < 0.12 else gen_shared_under_do_all(rng) if m < 0.17 else gen_doc(rng, allow_anyof=(pid == "C01"))
        if isinstance(d, bool) or J.metaschema_ok(d):
            docs.append(d)
    # documents that are in the dialect by the way they are built: the side conditions of the quantifier (one lower and one
    # upper bound per conjunction, non-empty range) are otherwise evaluated on the implementation's normal form, and a
    # normalize() that mixes up the alternatives would move exactly the documents it gets wrong out of scope
    by_construction = set()
    if pid == "C01":
        # a stream of its own, so that the documents above stay what they were
        rng2 = random.Random(ck.seed * 911 + 5)
        for _ in range(12 if tier == "quick" else 160):
            d = gen_props_times_anyof(rng2)
            if J.metaschema_ok(d):
                docs.append(d)
                by_construction.add(id(d))
    hist = {"in_scope": 0, "with_ref": 0, "with_allOf": 0, "with_array": 0, "raises_library_exception": 0, "labelled_valid": 0, "labelled_invalid": 0,
            "corpus_documents": len(json_corpus(pid))}
    sys.setrecursionlimit(2500)
    # --- correspondence (ordered sets installed): parse.py on the implementation's own normal form, and end to end
    J.install_ordered_sets()
    try:
        lines, meta = [], []
        suspects = []
        source = {}
        for d in docs:
            if isinstance(d, bool) or not J.integral(d):
                continue
            source[id(d)] = d
            try:
                nf = normalize(copy.deepcopy(d))
            except Exception:  # noqa
                nf = None
            if nf is not None:
                lines.append(" ".join(["J"] + VAR + [str(FUEL), "1"] + J.enc_json(nf)))
                meta.append((nf, True, id(d)))
            if rng.random() < 0.35:
                lines.append(" ".join(["J"] + VAR + [str(FUEL), "0"] + J.enc_json(d)))
                meta.append((d, False, id(d)))
        model = run_driver(lines)
        parse_agrees = {}
        for (d, normalized, key), m in zip(meta, model):
            impl = observe(d, normalized)
            ck.cov["traces_validated_against_impl"] += 1
            if normalized:
                parse_agrees[key] = impl == m
            if impl != m and not normalized and parse_agrees.get(key):
                # end to end the model and the code differ although parse() agrees on the implementation's own normal
                # form: the difference lies in normalize() (in-place list growth on shared sub-schemas, not modelled;
                # judged semantically by the N stream of C06 / C16), not in what this property is about
                hist["normal_forms_differ_structurally"] = hist.get("normal_forms_differ_structurally", 0) + 1
                continue
            if impl != m:
                ck.cov["disagreements_checked"] += 1
                suspects.append(source.get(key, d))       # the document as written, not its normal form
                if ck.cov["disagreements_checked"] <= 3:
                    ck.violation("correspondence-J", "model (coq/JsonGen.v%s) and json_schema/parse.py disagree" % ("" if normalized else " + Normalize.v"),
                                 {"stream": "J", "schema": d, "already_normalized": normalized, "impl": impl[:600], "model": m[:600],
                                  "theorem": "correspondence stream J"}, found_input=False)
    finally:
        J.uninstall_ordered_sets()
    # --- the model and the code differ on some documents: look near them for an input on which the code is wrong
    if suspects:
        srng = random.Random(ck.seed + 4711)
        tried = 0
        for base in suspects[:4]:
            for _ in range(60):
                v = vary(srng, base)
                tried += 1
                if not (isinstance(v, dict) and J.metaschema_ok(v) and in_scope(pid, v)):
                    continue
                docs.append(v)
        hist["variants_of_disagreeing_documents"] = tried
    # --- oracle on the implementation alone (real sets, this process's hash seed)
    for d in docs:
        txt = json.dumps(d)
        ck.count(txt, len(txt) > 25)
        if id(d) not in by_construction and not in_scope(pid, d):
            continue
        hist["in_scope"] += 1
        hist["with_ref"] += '"$ref"' in txt
        hist["with_allOf"] += '"allOf"' in txt
        hist["with_array"] += any(k in txt for k in ('"items"', '"prefixItems"', '"contains"'))
        for item in ORACLES[pid](d):
            sig, what = item[0], item[1]
            small = d
            if len(ck.violations) < 3 and isinstance(d, dict) and id(d) not in by_construction:
                small = c06.shrink_doc(d, lambda c: in_scope(pid, c) and any(x[0] == sig for x in ORACLES[pid](c)))
                got = [x for x in ORACLES[pid](small) if x[0] == sig]
                if got:
                    what = got[0][1]
            full_sig = sig if (pid == "C12" or "recursion-through" in sig or "unsatisfiable-items" in sig or "fillers-match-contains" in sig) else sig + ":" + classify(small)
            ck.violation(full_sig, what, {"stream": "J", "schema": small})
    ck.sample({"schema": docs[0]})
    ck.sample({"schema": docs[5]})
    ck.cov["rule"] = ("random documents of the C01/C02 dialect (type names and lists incl. integer, enum/const alone, one lower/upper bound, multipleOf, lengths, "
                      "properties/required incl. undeclared names, items/prefixItems/minItems/contains/minContains, allOf, local $ref/$defs with guarded recursion, "
                      "anyOf for C01), depth <= 3; the quantifier's side conditions are evaluated on the normal form; distinct = document, non-trivial = json text > 25 chars")
    ck.notes["input_distribution"] = hist
    ck.assumptions = ["validator: jsonschema Draft202012Validator", "the oracle run uses Python's real sets with this process's PYTHONHASHSEED; "
                      "the correspondence run installs insertion-ordered sets into parse.py/normalize.py"]
    return ck.finish(level="other", trusted=["model of json_schema/parse.py: coq/JsonGen.v (tied by stream J)"],
                     explanation="correspondence of the executable Coq models of normalize()/parse() with the implementation plus Draft 2020-12 validator oracle; theorems in progress")


def classify(doc):
    tags = [k for k in ("multipleOf", "maximum", "exclusiveMaximum", "minimum", "exclusiveMinimum", "minItems", "prefixItems", "items", "contains", "required",
                        "enum", "const", "$ref", "allOf", "anyOf", "minLength", "maxLength") if has(doc, k)]
    return "+".join(tags)


def replay(pid, path):
    d = json.load(open(path))
    res = ORACLES[pid](d["schema"])
    for item in res:
        print("replayed: %s [%s]" % (item[1], item[0]))
    return 1 if res else 0

"""C11: generation terminates on recursive schemas and grammars.
Parts: (a) core graphs (stream G: well-formed and productive-or-acyclic => no RecursionError, paths execute),
(b) recursive grammars in which every non-terminal derives a finite string, (c) recursive JSON Schemas with
guarded recursion that admit a finite instance."""
import random, json, copy, sys, signal
import fences_env
from common import Check, run_driver
import core, graphs, grammars as GM, c08, jsonschemas as J, c01, c06

fences_env.load()
import jsonschema  # noqa: E402


class Timeout(Exception):
    pass


def _alarm(signum, frame):
    raise Timeout()


def timed(fn, seconds=10):
    signal.signal(signal.SIGALRM, _alarm)
    signal.alarm(seconds)
    try:
        return fn(), None
    except Timeout:
        return None, "timeout"
    except RecursionError:
        return None, "fuel"
    except Exception as e:  # noqa
        return None, graphs.err_str(e)
    finally:
        signal.alarm(0)


def finite_instance(doc):
    """does the schema accept some finite instance?  bottom-up candidate construction"""
    v = jsonschema.Draft202012Validator(doc)
    cands = [None, True, 0, 1, -7, 42, "", "x", "xxxx", [], {}]
    names = set()
    J.constants_of(doc, set(), set(), names, [])
    names = sorted(names)[:4]
    for _ in range(3):
        new = []
        base = cands[:14]
        for c in base[:8]:
            new.append([c])
            new.append([c, c])
        for c in base[:6]:
            for n in names:
                new.append({n: c})
            if names:
                new.append({n: c for n in names})
        cands = cands + [x for x in new if x not in cands]
        if any(v.is_valid(c) for c in cands):
            return True
    return any(v.is_valid(c) for c in cands)


def with_empty_arrays(doc):
    """the same schema with 'minItems': 0 wherever an array keyword stands without minItems"""
    def go(s):
        if isinstance(s, dict):
            out = {k: ([go(x) for x in v] if isinstance(v, list) else go(v)) if k not in ("enum", "const", "required") else v for k, v in s.items()}
            if any(k in s for k in ("items", "prefixItems", "contains")) and "minItems" not in s:
                out["minItems"] = 0
            return out
        return s
    return go(doc)


def without_prefix_items(doc):
    """the same schema with every prefixItems list cut off (arrays shorter than their prefix are instances too)"""
    def go(s):
        if isinstance(s, dict):
            return {k: ([go(x) for x in v] if isinstance(v, list) else go(v)) if k not in ("enum", "const", "required") else v
                    for k, v in s.items() if k != "prefixItems"}
        return s
    return go(doc)


def json_generate(doc):
    """None / error string; divergence while the graph is being built is reported as 'build-fuel'"""
    g, pairs, err = c01.generate(doc)
    if g is None:
        if err == "fuel":
            return "build-fuel"
        return "lib" if err and err.startswith("lib:") else err
    return err


def oracle_json(doc):
    if isinstance(doc, bool) or not c06.guarded(doc):
        return []
    if not finite_instance(doc):
        return []
    # building the graph (normalize + parse) is timed on its own: a divergence there is never one of the listed findings
    _, berr = timed(lambda: c01.P.parse(copy.deepcopy(doc)))
    if berr in ("fuel", "timeout"):
        return [("json-recursion-does-not-terminate:while-building-the-graph",
                 "parse_json_schema %s on a recursive schema that admits a finite instance" % ("exceeds 10 s" if berr == "timeout" else "raises RecursionError"))]
    err, terr = timed(lambda: json_generate(doc))
    err = terr or err
    if err == "build-fuel":
        return [("json-recursion-does-not-terminate:while-building-the-graph",
                 "parse_json_schema raises RecursionError on a recursive schema that admits a finite instance")]
    if err in ("fuel", "timeout"):
        # classification for the known-findings file: does the recursion only fail to bottom out because
        # arrays are generated with one item by default?
        e2, t2 = timed(lambda: json_generate(with_empty_arrays(doc)))
        e2 = t2 or e2
        sig = "json-recursion-does-not-terminate"
        if e2 not in ("fuel", "timeout"):
            sig += ":recursion-through-array-items-generated-non-empty"
        else:
            e3, t3 = timed(lambda: json_generate(with_empty_arrays(without_prefix_items(doc))))
            if (t3 or e3) not in ("fuel", "timeout"):
                sig += ":recursion-through-prefix-items-generated-in-full"
        return [(sig, "generation %s on a recursive schema that admits a finite instance" % ("exceeds 10 s" if err == "timeout" else "raises RecursionError"))]
    return []


def gen_recursive_doc(rng):
    """recursive documents: trees, lists, mutual recursion, recursion to the root; the recursive part is optional,
    has a base alternative or sits under an array that may be empty"""
    leaf = lambda: rng.choice([{"type": "integer", "minimum": rng.randint(0, 3)}, {"type": "string"}, {"enum": ["a", "b"]}, {"type": "boolean"}, {}])
    tgt = rng.choice(["#", "#/$defs/T", "#/$defs/U"])
    shape = rng.choice(["optprop", "items", "items0", "prefix", "anyof-base", "mutual", "nested-array", "ref-siblings", "cons", "cons0", "wrapped-ref", "wrapped-ref",
                        "negated-items"])
    if shape == "negated-items":
        # the recursion passes through an item (or property) position that stands under one or two negations
        pos = rng.choice(["items", "items", "prop"])
        inner = {"not": {"$ref": "#/$defs/n"}} if rng.random() < 0.6 else {"$ref": "#/$defs/n"}
        holder = {"type": "array", "items": inner} if pos == "items" else {"type": "object", "properties": {"k": inner}}
        n = {"not": holder} if rng.random() < 0.6 else {"oneOf": [{"type": "null"}, {k: v for k, v in holder.items() if k != "type"}]}
        return {"$defs": {"n": n}, "$ref": "#/$defs/n"}
    T = {"type": "object", "properties": {"v": leaf()}}
    U = {"type": "array", "items": leaf()}
    if shape == "optprop":
        T["properties"]["child"] = {"$ref": tgt}
        if rng.random() < 0.5:
            T["required"] = ["v"]
    elif shape == "wrapped-ref":
        # the recursive reference sits inside a combinator at a property, next to a sibling without any reference
        comb = rng.choice(["anyOf", "anyOf", "oneOf"])
        nxt = {comb: [{"$ref": tgt}, {"type": "null"}]}
        sib = rng.choice(["not", "then", "else"])
        if sib == "not":
            nxt["not"] = {"type": "array"}
        else:
            nxt["if"] = {"type": "string"}
            nxt[sib] = {"minLength": 1}
        T["properties"]["next"] = nxt
    elif shape == "items":
        T["properties"]["kids"] = {"type": "array", "items": {"$ref": tgt}}
    elif shape == "items0":
        T["properties"]["kids"] = {"type": "array", "items": {"$ref": tgt}, "minItems": 0}
    elif shape == "prefix":
        T["properties"]["pair"] = {"type": "array", "prefixItems": [leaf(), {"$ref": tgt}], "minItems": 0}
    elif shape == "anyof-base":
        T = {"anyOf": [{"type": "null"}, {"type": "object", "properties": {"next": {"$ref": tgt}}, "required": ["next"]}]}
    elif shape == "cons":
        T = {"anyOf": [{"type": "null"}, {"type": "array", "prefixItems": [leaf(), {"$ref": "#/$defs/T"}]}]}
    elif shape == "cons0":
        T = {"type": "array", "prefixItems": [leaf(), {"$ref": "#/$defs/T"}], "minItems": 0}
    elif shape == "mutual":
        T["properties"]["u"] = {"$ref": "#/$defs/U"}
        U = {"type": "object", "properties": {"t": {"$ref": "#/$defs/T"}, "w": leaf()}}
    elif shape == "nested-array":
        U = {"type": "array", "items": {"$ref": "#/$defs/U"}}
        T["properties"]["u"] = {"$ref": "#/$defs/U"}
    else:
        T["properties"]["child"] = {"$ref": tgt, "type": "object"}
    doc = {"$ref": "#/$defs/T"} if tgt != "#" or rng.random() < 0.5 else dict(T)
    if "$ref" in doc and rng.random() < 0.3:
        doc = {"type": "object", "properties": {"root": {"$ref": "#/$defs/T"}}}
    doc["$defs"] = {"T": T, "U": U}
    return doc


WG_FUEL = 1500


def wg_case(root):
    """(driver line, what the implementation yields) for a graph built by a front end"""
    import regexes as RX
    line = RX.certify_line(root)
    toks = line.split(" ")
    its = list(root.items())
    num = {id(n): i for i, n in enumerate(its)}
    entries, status = [], "ok:"
    try:
        for e in root.generate_paths():
            entries.append(e)
    except Exception as ex:  # noqa
        status = graphs.err_str(ex)
    impl = "entries=" + ";".join("%d/%s/%d" % (num.get(id(e.target), -1), graphs.ints(e.path), int(e.is_valid)) for e in entries) + "|status=" + status
    return " ".join(["WG", str(WG_FUEL)] + toks[1:]), impl


def judge_wg(ck, stats, what, payload, m, impl):
    """certificate + correspondence for one front-end graph"""
    parts = dict(p.split("=", 1) for p in m.split("|") if "=" in p)
    cert = parts.get("wf") == "1" and (parts.get("prod") == "1" or parts.get("acyc") == "1")
    stats["front_end_graphs"] += 1
    stats["theorem_applies"] += cert
    model = "entries=%s|status=%s" % (parts.get("entries", ""), parts.get("status", ""))
    if m.startswith("error="):
        stats["model_gave_up"] = stats.get("model_gave_up", 0) + 1
        return
    if cert and parts.get("status") != "ok:":
        ck.violation("theorem-contradicted", "the model does not end normally on a certified graph (%s): C11_core would be contradicted" % what,
                     dict(payload, model=m[:300], theorem="C11_core_productive / C11_core_acyclic"), found_input=False)
    if cert and "status=ok:" not in impl:
        ck.violation("front-end-graph-enumeration-fails", "generate_paths() ends with %s on the graph of %s, which is well-formed and %s: the theorem C11_core says the enumeration ends normally" % (
            impl.split("status=")[-1], what, "productive" if parts.get("prod") == "1" else "acyclic"), payload)
    elif model != impl and not (("status=fuel" in impl or "status=timeout" in impl) and parts.get("status") == "fuel"):
        ck.cov["disagreements_checked"] += 1
        ck.violation("correspondence-WG", "model (coq/Graph.v) and core/node.py enumerate different paths on the graph of %s" % what,
                     dict(payload, impl=impl[:400], model=model[:400], theorem="correspondence stream WG"), found_input=False)


def run(pid, tier):
    ck = Check(pid, tier)
    if not ck.coq():
        ck.violation("coq-obligation", "coq/Properties/C11.v no longer checks: %s" % ck.obl["log"][-300:],
                     {"theorem": ck.obl["file"]}, found_input=False)
    core.explore(ck, "C11", tier)
    stats = dict(ck.notes.get("input_distribution", {}))
    rng = random.Random(ck.seed * 131 + 1)
    # (b) grammars
    n = 200 if tier == "quick" else 3000
    gr = {"grammars_in_scope": 0, "recursive": 0}
    wg = []
    wg_budget = 80 if tier == "quick" else 1500
    wstats = {"front_end_graphs": 0, "theorem_applies": 0}

    def grammars():
        for _ in range(n):
            g, start = GM.gen_grammar(rng)
            txt = json.dumps(g)
            ck.count("gr" + txt, '"N"' in txt)
            if not c08.in_scope(g, start):
                continue
            gr["grammars_in_scope"] += 1
            gr["recursive"] += '"N"' in txt
            if gr["grammars_in_scope"] <= wg_budget:
                try:
                    from fences import parse_grammar
                    groot = parse_grammar(GM.to_fences(g), "n%d" % start)
                    wg.append(("grammar %s" % json.dumps(g)[:120], {"stream": "WG", "grammar": g, "start": start}) + wg_case(groot))
                except Exception:  # noqa
                    pass
            obs, pairs = GM.observe(g, start)
            if obs.startswith("parse=fuel") or "status=fuel" in obs or any(s is None for _, s in pairs):
                small = c08.shrink(g, start, lambda c: c08.in_scope(c, start) and ("fuel" in GM.observe(c, start)[0]))
                ck.violation("grammar-does-not-terminate", "RecursionError on a grammar in which every non-terminal derives a finite string",
                             {"stream": "Gr", "grammar": small, "start": start})
    fences_env.run_with_big_stack(grammars, reclimit=3000)
    # (c) JSON schemas
    sys.setrecursionlimit(2500)
    m = 150 if tier == "quick" else 3000
    js = {"json_in_scope": 0}
    listed = [k["example"] for k in ck.kf.get("known", []) if k.get("property") == pid and isinstance(k.get("example"), dict)]
    for i in range(-len(listed), m):
        # the examples of the listed findings first (each is reported as KNOWN-FINDING as long as it still fails)
        d = listed[i + len(listed)] if i < 0 else gen_recursive_doc(rng) if i % 2 else c01.gen_doc(rng, allow_anyof=True)
        if isinstance(d, bool) or not J.metaschema_ok(d) or '"$ref"' not in json.dumps(d):
            continue
        ck.count("js" + json.dumps(d), True)
        js["json_in_scope"] += 1
        if js["json_in_scope"] <= wg_budget and c06.guarded(d) and finite_instance(d):
            gq, terr = timed(lambda: c01.P.parse(copy.deepcopy(d)))
            if gq is not None:
                case, terr = timed(lambda: wg_case(gq))
                if case is not None:
                    wg.append(("schema %s" % json.dumps(d)[:120], {"stream": "WG", "schema": d}) + case)
        for sig, what in oracle_json(d):
            small = d
            if len([v for v in ck.violations]) < 2:
                small = c06.shrink_doc(d, lambda c: any(s == sig for s, _ in oracle_json(c)))
            ck.violation(sig, what, {"stream": "J", "schema": small})
    # (d) XML Schemas: named complex types that contain themselves below an optional element
    import xsds as X
    import xml.etree.ElementTree as ET
    xs = {"xsd_recursive": 0}
    for i in range(60 if tier == "quick" else 1500):
        sch = X.gen_schema(rng, recursive_ok=True)
        text = X.to_xsd(sch)
        if 'name="rec' not in text:
            continue
        ck.count("xs" + text, True)
        xs["xsd_recursive"] += 1

        def build(text=text):
            from fences import parse_xml_schema
            return parse_xml_schema(ET.fromstring(text))
        groot, err = timed(build)
        if err in ("fuel", "timeout"):
            ck.violation("xsd-recursion-does-not-terminate:while-building-the-graph", "parse_xml_schema %s on a schema whose recursive element is optional" % (
                "exceeds 10 s" if err == "timeout" else "raises RecursionError"), {"stream": "X", "xsd": text})
            continue
        if groot is None:
            continue
        case, err = timed(lambda: wg_case(groot))
        if case is None:
            continue
        if "status=fuel" in case[1]:
            ck.violation("xsd-recursion-does-not-terminate", "generate_paths() raises RecursionError on the graph of an XML Schema whose recursive element is optional",
                         {"stream": "X", "xsd": text})
        wg.append(("XML schema %s" % text[:120], {"stream": "WG", "xsd": text}) + case)
    stats.update(xs)
    for (what, payload, line, impl), m in zip(wg, run_driver([w[2] for w in wg]) if wg else []):
        judge_wg(ck, wstats, what, payload, m, impl)
    stats.update(gr)
    stats.update(js)
    stats.update(wstats)
    ck.notes["input_distribution"] = stats
    ck.cov["rule"] += "; plus random recursive grammars (stream Gr) and random JSON Schemas with guarded recursive $ref that accept some finite instance"
    return ck.finish(level="proof", trusted=["models: coq/Graph.v (core), coq/Grammar.v, coq/JsonGen.v; termination of the implementation is observed by RecursionError / a 10 s alarm",
                                             "front-end graphs: node table dumped from the implementation, certified by wfb / productiveb / acyclicb of the extracted model (C11_checkers)"],
                     explanation="theorems C11_core_productive / C11_core_acyclic / C11_paths_execute (coq/Properties/C11.v) for the core; stream G ties the model to core/node.py "
                                 "(RecursionError <-> OutOfFuel); front-end graphs are certified one by one (stream WG) so that the theorem applies to them, and their enumeration is compared with the model's")


def replay(pid, path):
    d = json.load(open(path))
    if "schema" in d:
        res = oracle_json(d["schema"])
    elif "xsd" in d:
        import xml.etree.ElementTree as ET

        def go():
            from fences import parse_xml_schema
            return wg_case(parse_xml_schema(ET.fromstring(d["xsd"])))
        case, err = timed(go)
        res = [("xsd-recursion-does-not-terminate", "RecursionError / alarm on the XML schema")] if err in ("fuel", "timeout") or (case and "status=ok:" not in case[1]) else []
    elif "grammar" in d:
        def go():
            from fences import parse_grammar
            return wg_case(parse_grammar(GM.to_fences(d["grammar"]), "n%d" % d["start"]))
        case, err = fences_env.run_with_big_stack(lambda: timed(go), reclimit=3000)
        res = [("grammar-does-not-terminate", "RecursionError / alarm on the grammar")] if err in ("fuel", "timeout") or (case and "status=ok:" not in case[1]) else []
    else:
        return core.replay("C11", path)
    for sig, what in res:
        print("replayed: %s [%s]" % (what, sig))
    return 1 if res else 0

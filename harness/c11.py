"""C11: generation terminates on recursive schemas and grammars.
Parts: (a) core graphs (stream G: well-formed and productive-or-acyclic => no RecursionError, paths execute),
(b) recursive grammars in which every non-terminal derives a finite string, (c) recursive JSON Schemas with
guarded recursion that admit a finite instance."""
import random, json, copy, sys, signal
import fences_env
from common import Check, run_driver
import core, graphs, grammars as GM, c08, jsonschemas as J, c01, c06

fences_env.load()
import jsonschema  # noqa: E402


class Timeout(Exception):
    pass


def _alarm(signum, frame):
    raise Timeout()


def timed(fn, seconds=10):
    signal.signal(signal.SIGALRM, _alarm)
    signal.alarm(seconds)
    try:
        return fn(), None
    except Timeout:
        return None, "timeout"
    except RecursionError:
        return None, "fuel"
    except Exception as e:  # noqa
        return None, graphs.err_str(e)
    finally:
        signal.alarm(0)


def finite_instance(doc):
    """does the schema accept some finite instance?  bottom-up candidate construction"""
    v = jsonschema.Draft202012Validator(doc)
    cands = [None, True, 0, 1, -7, 42, "", "x", "xxxx", [], {}]
    names = set()
    J.constants_of(doc, set(), set(), names, [])
    names = sorted(names)[:4]
    for _ in range(3):
        new = []
        base = cands[:14]
        for c in base[:8]:
            new.append([c])
            new.append([c, c])
        for c in base[:6]:
            for n in names:
                new.append({n: c})
            if names:
                new.append({n: c for n in names})
        cands = cands + [x for x in new if x not in cands]
        if any(v.is_valid(c) for c in cands):
            return True
    return any(v.is_valid(c) for c in cands)


def with_empty_arrays(doc):
    """the same schema with 'minItems': 0 wherever an array keyword stands without minItems"""
    def go(s):
        if isinstance(s, dict):
            out = {k: ([go(x) for x in v] if isinstance(v, list) else go(v)) if k not in ("enum", "const", "required") else v for k, v in s.items()}
            if any(k in s for k in ("items", "prefixItems", "contains")) and "minItems" not in s:
                out["minItems"] = 0
            return out
        return s
    return go(doc)


def json_generate(doc):
    g, pairs, err = c01.generate(doc)
    if g is None:
        return "lib" if err and err.startswith("lib:") else err
    return err


def oracle_json(doc):
    if isinstance(doc, bool) or not c06.guarded(doc):
        return []
    if not finite_instance(doc):
        return []
    err, terr = timed(lambda: json_generate(doc))
    err = terr or err
    if err in ("fuel", "timeout"):
        # classification for the known-findings file: does the recursion only fail to bottom out because
        # arrays are generated with one item by default?
        e2, t2 = timed(lambda: json_generate(with_empty_arrays(doc)))
        e2 = t2 or e2
        sig = "json-recursion-does-not-terminate"
        if e2 not in ("fuel", "timeout"):
            sig += ":recursion-through-array-items-generated-non-empty"
        return [(sig, "generation %s on a recursive schema that admits a finite instance" % ("exceeds 10 s" if err == "timeout" else "raises RecursionError"))]
    return []


def gen_recursive_doc(rng):
    """recursive documents: trees, lists, mutual recursion, recursion to the root; the recursive part is optional,
    has a base alternative or sits under an array that may be empty"""
    leaf = lambda: rng.choice([{"type": "integer", "minimum": rng.randint(0, 3)}, {"type": "string"}, {"enum": ["a", "b"]}, {"type": "boolean"}, {}])
    tgt = rng.choice(["#", "#/$defs/T", "#/$defs/U"])
    shape = rng.choice(["optprop", "items", "items0", "prefix", "anyof-base", "mutual", "nested-array", "ref-siblings"])
    T = {"type": "object", "properties": {"v": leaf()}}
    U = {"type": "array", "items": leaf()}
    if shape == "optprop":
        T["properties"]["child"] = {"$ref": tgt}
        if rng.random() < 0.5:
            T["required"] = ["v"]
    elif shape == "items":
        T["properties"]["kids"] = {"type": "array", "items": {"$ref": tgt}}
    elif shape == "items0":
        T["properties"]["kids"] = {"type": "array", "items": {"$ref": tgt}, "minItems": 0}
    elif shape == "prefix":
        T["properties"]["pair"] = {"type": "array", "prefixItems": [leaf(), {"$ref": tgt}], "minItems": 0}
    elif shape == "anyof-base":
        T = {"anyOf": [{"type": "null"}, {"type": "object", "properties": {"next": {"$ref": tgt}}, "required": ["next"]}]}
    elif shape == "mutual":
        T["properties"]["u"] = {"$ref": "#/$defs/U"}
        U = {"type": "object", "properties": {"t": {"$ref": "#/$defs/T"}, "w": leaf()}}
    elif shape == "nested-array":
        U = {"type": "array", "items": {"$ref": "#/$defs/U"}}
        T["properties"]["u"] = {"$ref": "#/$defs/U"}
    else:
        T["properties"]["child"] = {"$ref": tgt, "type": "object"}
    doc = {"$ref": "#/$defs/T"} if tgt != "#" or rng.random() < 0.5 else dict(T)
    if "$ref" in doc and rng.random() < 0.3:
        doc = {"type": "object", "properties": {"root": {"$ref": "#/$defs/T"}}}
    doc["$defs"] = {"T": T, "U": U}
    return doc


def run(pid, tier):
    ck = Check(pid, tier)
    if not ck.coq():
        ck.violation("coq-obligation", "coq/Properties/C11.v no longer checks: %s" % ck.obl["log"][-300:],
                     {"theorem": ck.obl["file"]}, found_input=False)
    core.explore(ck, "C11", tier)
    stats = dict(ck.notes.get("input_distribution", {}))
    rng = random.Random(ck.seed * 131 + 1)
    # (b) grammars
    n = 200 if tier == "quick" else 3000
    gr = {"grammars_in_scope": 0, "recursive": 0}

    def grammars():
        for _ in range(n):
            g, start = GM.gen_grammar(rng)
            txt = json.dumps(g)
            ck.count("gr" + txt, '"N"' in txt)
            if not c08.in_scope(g, start):
                continue
            gr["grammars_in_scope"] += 1
            gr["recursive"] += '"N"' in txt
            obs, pairs = GM.observe(g, start)
            if obs.startswith("parse=fuel") or "status=fuel" in obs or any(s is None for _, s in pairs):
                small = c08.shrink(g, start, lambda c: c08.in_scope(c, start) and ("fuel" in GM.observe(c, start)[0]))
                ck.violation("grammar-does-not-terminate", "RecursionError on a grammar in which every non-terminal derives a finite string",
                             {"stream": "Gr", "grammar": small, "start": start})
    fences_env.run_with_big_stack(grammars, reclimit=3000)
    # (c) JSON schemas
    sys.setrecursionlimit(2500)
    m = 150 if tier == "quick" else 3000
    js = {"json_in_scope": 0}
    for i in range(m):
        d = gen_recursive_doc(rng) if i % 2 else c01.gen_doc(rng, allow_anyof=True)
        if isinstance(d, bool) or not J.metaschema_ok(d) or '"$ref"' not in json.dumps(d):
            continue
        ck.count("js" + json.dumps(d), True)
        js["json_in_scope"] += 1
        for sig, what in oracle_json(d):
            small = d
            if len([v for v in ck.violations]) < 2:
                small = c06.shrink_doc(d, lambda c: any(s == sig for s, _ in oracle_json(c)))
            ck.violation(sig, what, {"stream": "J", "schema": small})
    stats.update(gr)
    stats.update(js)
    ck.notes["input_distribution"] = stats
    ck.cov["rule"] += "; plus random recursive grammars (stream Gr) and random JSON Schemas with guarded recursive $ref that accept some finite instance"
    return ck.finish(level="other", trusted=["models: coq/Graph.v (core), coq/Grammar.v, coq/JsonGen.v; termination of the implementation is observed by RecursionError / a 10 s alarm"],
                     explanation="termination is observed on the implementation (RecursionError <-> OutOfFuel in the model correspondence of stream G, alarm clock for front ends); "
                                 "Coq: loop-round bound proved, the fuel-bound theorem for analysis and path walking is in progress")


def replay(pid, path):
    d = json.load(open(path))
    if "schema" in d:
        res = oracle_json(d["schema"])
    elif "grammar" in d:
        print("re-run ./check C08 --replay for grammar inputs")
        res = []
    else:
        return core.replay("C11", path)
    for sig, what in res:
        print("replayed: %s [%s]" % (what, sig))
    return 1 if res else 0

"""C06 (normalisation preserves acceptance) and C16 (normal form shape, termination): stream N."""
import random, json, copy, signal
import fences_env
from common import Check, run_driver, json_corpus
import jsonschemas as J, graphs

fences_env.load()
from fences.json_schema.normalize import normalize, NormalizationConfig, check_normalized  # noqa: E402
from fences.core.exception import FencesException  # noqa: E402

FIX_LONE_IF = 1        # model variant flags matching /repo (see known_findings.json)
FUEL = 400
TIME_LIMIT = 6
COMBINATORS = ("anyOf", "allOf", "oneOf", "not", "if", "then", "else", "const")


class Timeout(Exception):
    pass


class DocTimeout(BaseException):
    """the work on one document (implementation + oracle evaluation) exceeds its CPU budget"""


def _prof(signum, frame):
    raise DocTimeout()


class doc_guard:
    """CPU-time budget for everything done with one document (SIGPROF, independent of the SIGALRM limit around normalize)"""
    def __init__(self, seconds):
        self.seconds = seconds

    def __enter__(self):
        signal.signal(signal.SIGPROF, _prof)
        signal.setitimer(signal.ITIMER_PROF, self.seconds)

    def __exit__(self, *a):
        signal.setitimer(signal.ITIMER_PROF, 0)
        return False


def _alarm(signum, frame):
    raise Timeout()


def run_normalize(doc, full, dup):
    cfg = NormalizationConfig(full_merge=full, detect_duplicate_subschemas=dup)
    signal.signal(signal.SIGALRM, _alarm)
    signal.alarm(TIME_LIMIT)
    try:
        return normalize(copy.deepcopy(doc), cfg), None
    except Timeout:
        return None, "timeout"
    except Exception as e:  # noqa
        return None, graphs.err_str(e)
    finally:
        signal.alarm(0)


def nf_problems(nf):
    """independent statement of the normal form of C16"""
    probs = []
    if not isinstance(nf, dict):
        return ["result is not a dict"]
    defs = nf.get("$defs", {})

    def check(s, where, top=False):
        if not isinstance(s, dict):
            probs.append("%s: not a dict" % where)
            return
        keys = set(s.keys()) - ({"$defs", "$schema"} if top else set())
        if keys != {"anyOf"}:
            probs.append("%s: keys %s instead of anyOf" % (where, sorted(keys)))
            return
        if not isinstance(s["anyOf"], list):
            probs.append("%s: anyOf is not a list" % where)
            return
        for i, alt in enumerate(s["anyOf"]):
            w = "%s/anyOf/%d" % (where, i)
            if not isinstance(alt, dict):
                probs.append("%s: not a dict" % w)
                continue
            for c in COMBINATORS:
                if c in alt:
                    probs.append("%s: contains '%s'" % (w, c))
            if "$ref" in alt:
                if set(alt.keys()) != {"$ref"}:
                    probs.append("%s: $ref next to %s" % (w, sorted(set(alt.keys()) - {"$ref"})))
                r = alt["$ref"]
                if not (isinstance(r, str) and r.startswith("#/$defs/") and r[8:] in defs):
                    probs.append("%s: $ref %r does not name an entry of the result's own $defs" % (w, r))
            for k in ("additionalProperties", "items", "additionalItems", "contains"):
                if k in alt:
                    check(alt[k], w + "/" + k)
            for n, p in (alt.get("properties") or {}).items():
                check(p, "%s/properties/%s" % (w, n))
            for j, p in enumerate(alt.get("prefixItems") or []):
                check(p, "%s/prefixItems/%d" % (w, j))
    check(nf, "#", top=True)
    if isinstance(defs, dict):
        for k, v in defs.items():
            check(v, "#/$defs/" + k)
    return probs


def resolve_ref(doc, ref):
    if ref in ("#", "#/"):
        return doc
    if not isinstance(ref, str) or not ref.startswith("#/"):
        return None
    cur = doc
    for p in ref[2:].split("/"):
        if isinstance(cur, dict) and p in cur:
            cur = cur[p]
        elif isinstance(cur, list) and p.isdigit() and int(p) < len(cur):
            cur = cur[int(p)]
        else:
            return None
    return cur


def in_c06_scope(doc):
    """every schema that gets negated -- the operand of not, the if of a conditional, each branch of a oneOf, and (because
    the inverter negates them in turn) the property sub-schemas of such a schema -- names at most one property and has no
    items / prefixItems / contains; references and combinators are followed"""
    if not isinstance(doc, dict):
        return True
    ok = [True]

    def facts(s, seen, names, props):
        if not isinstance(s, dict) or id(s) in seen:
            return
        seen.add(id(s))
        if any(k in s for k in ("items", "prefixItems", "contains")):
            ok[0] = False
        if isinstance(s.get("properties"), dict):
            names.update(s["properties"].keys())
            props.extend(s["properties"].values())
        if isinstance(s.get("required"), list):
            names.update(x for x in s["required"] if isinstance(x, str))
        if isinstance(s.get("$ref"), str):
            facts(resolve_ref(doc, s["$ref"]), seen, names, props)
        for k in ("allOf", "anyOf", "oneOf"):
            for x in s.get(k, []) if isinstance(s.get(k), list) else []:
                facts(x, seen, names, props)
        for k in ("not", "if", "then", "else"):
            if k in s:
                facts(s[k], seen, names, props)
    negated = set()

    def check_neg(s):
        if not isinstance(s, dict) or id(s) in negated:
            return
        negated.add(id(s))
        names, props = set(), []
        facts(s, set(), names, props)
        if len(names) > 1:
            ok[0] = False
        for p in props:
            check_neg(p)

    def walk(s):
        if isinstance(s, dict):
            for k in ("not", "if"):
                if k in s:
                    check_neg(s[k])
            for b in s.get("oneOf", []) if isinstance(s.get("oneOf"), list) else []:
                check_neg(b)
            for v in s.values():
                walk(v)
        elif isinstance(s, list):
            for v in s:
                walk(v)
    walk(doc)
    return ok[0]


def recursion_through_if_operand(doc):
    """some 'if' operand contains (through combinators) a reference from whose target the same conditional is reached again"""
    if not isinstance(doc, dict):
        return False

    def refs_in(s, acc, seen):
        if not isinstance(s, dict) or id(s) in seen:
            return
        seen.add(id(s))
        if isinstance(s.get("$ref"), str):
            acc.append(s["$ref"])
        for k in ("allOf", "anyOf", "oneOf"):
            for x in s.get(k, []) if isinstance(s.get(k), list) else []:
                refs_in(x, acc, seen)
        for k in ("not", "if", "then", "else"):
            if k in s:
                refs_in(s[k], acc, seen)

    def reaches(start, goal):
        seen, todo = set(), [start]
        while todo:
            x = todo.pop()
            if x is goal:
                return True
            if isinstance(x, dict):
                if id(x) in seen:
                    continue
                seen.add(id(x))
                if isinstance(x.get("$ref"), str):
                    todo.append(resolve_ref(doc, x["$ref"]))
                todo.extend(x.values())
            elif isinstance(x, list):
                todo.extend(x)
        return False
    found = [False]

    def walk(s):
        if isinstance(s, dict):
            if "if" in s:
                acc = []
                refs_in(s["if"], acc, set())
                for r in acc:
                    if reaches(resolve_ref(doc, r), s):
                        found[0] = True
            for v in s.values():
                walk(v)
        elif isinstance(s, list):
            for v in s:
                walk(v)
    walk(doc)
    return found[0]


def guarded(doc):
    """every cycle of references passes through properties / items / prefixItems / additionalProperties / contains"""
    if not isinstance(doc, dict):
        return True

    def resolve(ref):
        return resolve_ref(doc, ref)

    def unguarded_refs(s, acc):
        """references reachable from s through combinators only"""
        if not isinstance(s, dict):
            return
        if isinstance(s.get("$ref"), str):
            acc.append(s["$ref"])
        for k in ("allOf", "anyOf", "oneOf"):
            for x in s.get(k, []) if isinstance(s.get(k), list) else []:
                unguarded_refs(x, acc)
        for k in ("not", "if", "then", "else"):
            if k in s:
                unguarded_refs(s[k], acc)
    # graph over reference strings
    edges = {}
    todo = []
    start = []
    unguarded_refs(doc, start)

    def all_schemas(s, out):
        if isinstance(s, dict):
            out.append(s)
            for v in s.values():
                all_schemas(v, out)
        elif isinstance(s, list):
            for v in s:
                all_schemas(v, out)
    every = []
    all_schemas(doc, every)
    refs = set()
    for s in every:
        if isinstance(s.get("$ref"), str):
            refs.add(s["$ref"])
    for r in refs:
        t = resolve(r)
        acc = []
        if t is not None:
            unguarded_refs(t, acc)
        edges[r] = acc
    # cycle detection
    color = {}

    def dfs(r):
        color[r] = 1
        for n in edges.get(r, []):
            if color.get(n) == 1:
                return False
            if n not in color and not dfs(n):
                return False
        color[r] = 2
        return True
    return all(dfs(r) for r in list(edges) if r not in color)


def classify_c06(doc, x, full):
    """narrow signatures for the known-findings file (which construct is involved)"""
    txt = json.dumps(doc)
    tags = []
    for k in ("oneOf", "not", "if", "const", "dependentRequired", "$ref", "prefixItems", "additionalProperties", "multipleOf"):
        if '"%s"' % k in txt:
            tags.append(k)
    return ("full" if full else "reduced") + ":" + "+".join(tags)


def oracle_c06(doc, full, rng, first=()):
    nf, err = run_normalize(doc, full, False)
    if err:
        return []
    res = []
    for x in list(first) + list(J.instance_grid(doc, rng)):
        try:
            a = J.accepts(doc, x)
            b = J.accepts(nf, x)
        except Exception:  # noqa
            continue
        if full and a != b:
            res.append(("acceptance-differs:" + classify_c06(doc, x, full),
                        "instance %s is %s by the schema but %s by normalize(schema) (full merge)" % (
                            json.dumps(x), "accepted" if a else "rejected", "accepted" if b else "rejected"), x))
            break
        if not full and b and not a:
            res.append(("reduced-accepts-more:" + classify_c06(doc, x, full),
                        "instance %s is accepted by the reduced-merge normal form but rejected by the schema" % json.dumps(x), x))
            break
    return res


def oracle_c16(doc, full, dup):
    nf, err = run_normalize(doc, full, dup)
    if err == "timeout" or err == "fuel":
        sig = "normalize-does-not-terminate"
        if recursion_through_if_operand(doc):
            sig += ":recursive-reference-in-if-operand"
        return [(sig, "normalize() %s on a schema with guarded recursion" % ("exceeds %d s" % TIME_LIMIT if err == "timeout" else "raises RecursionError"))]
    if err:
        return []
    probs = nf_problems(nf)
    if probs:
        return [("not-normal-form", "normalize() result is not in normal form: " + "; ".join(probs[:3]))]
    try:
        check_normalized(nf)
    except Exception as e:  # noqa
        return [("check-normalized-fails", "upstream check_normalized rejects the result: %s" % e)]
    return []


def shrink_doc(doc, bad):
    """greedy: drop keys / list elements anywhere while the predicate persists"""
    import itertools
    changed = True
    while changed:
        changed = False
        paths = []

        def walk(x, p):
            if isinstance(x, dict):
                for k in list(x.keys()):
                    paths.append(p + [k])
                    walk(x[k], p + [k])
            elif isinstance(x, list):
                for i in range(len(x)):
                    paths.append(p + [i])
                    walk(x[i], p + [i])
        walk(doc, [])
        for p in sorted(paths, key=lambda q: -len(q)):
            c = copy.deepcopy(doc)
            cur = c
            try:
                for k in p[:-1]:
                    cur = cur[k]
                del cur[p[-1]]
            except Exception:  # noqa
                continue
            try:
                if J.metaschema_ok(c) and bad(c):
                    doc = c
                    changed = True
                    break
            except Exception:  # noqa
                pass
    return doc


def run(pid, tier):
    ck = Check(pid, tier)
    if not ck.coq():
        ck.violation("coq-obligation", "coq/Properties/%s.v no longer checks: %s" % (pid, ck.obl["log"][-300:]),
                     {"theorem": ck.obl["file"]}, found_input=False)
    rng = random.Random(ck.seed * 577 + 13)
    n = 420 if tier == "quick" else 5000
    docs = []
    corpus_instances = {}
    for e in json_corpus(pid):
        if isinstance(e["schema"], bool) or J.metaschema_ok(e["schema"]):
            docs.append(e["schema"])
            if "instance" in e:
                corpus_instances[json.dumps(e["schema"], sort_keys=True)] = [e["instance"]]
    n += len(docs)
    hist = {"corpus_documents": len(docs), "raises_library_exception": 0, "with_ref": 0, "with_not_if_oneOf": 0, "in_c06_scope": 0, "recursive": 0,
            "random_documents": 0, "conjunctions_of_one_keyword_group": 0, "recursion_through_not_or_if": 0, "self_conjunction": 0, "diverges": 0}
    while len(docs) < n:
        m = rng.random()
        if m < 0.50:
            d = J.gen_document(rng, rng.choice([1, 2, 3]))
            hist["random_documents"] += 1
        elif m < 0.56:
            d = J.gen_ref_siblings(rng)
            hist["one_reference_with_and_without_siblings"] = hist.get("one_reference_with_and_without_siblings", 0) + 1
        elif m < 0.95:
            d = J.gen_merge_doc(rng)
            hist["conjunctions_of_one_keyword_group"] += 1
        elif hist["recursion_through_not_or_if"] < 60 and rng.random() < 0.6:
            d = J.gen_negated_recursion(rng)
            hist["recursion_through_not_or_if"] += 1
        elif hist["self_conjunction"] < 40:
            d = J.gen_self_conjunction(rng)
            hist["self_conjunction"] += 1
        else:
            d = J.gen_merge_doc(rng)
            hist["conjunctions_of_one_keyword_group"] += 1
        if isinstance(d, bool) or J.metaschema_ok(d):
            docs.append(d)
    J.install_ordered_sets()
    lines, meta = [], []
    for d in docs:
        for full in (True, False):
            dup = rng.random() < 0.3
            lines.append(" ".join(["N", str(FIX_LONE_IF), str(int(full)), str(int(dup)), str(FUEL)] + J.enc_json(d)))
            meta.append((d, full, dup))
    import os
    os.environ["FENCES_DRIVER_LIMIT"] = "12"
    model = run_driver(lines)
    orc = random.Random(ck.seed + 99)

    def body():
        def one_doc(d, full, dup, m):
            if hist.get("implementation_timeouts", 0) >= 12:
                hist["skipped_after_repeated_timeouts"] = hist.get("skipped_after_repeated_timeouts", 0) + 1
                return
            txt = json.dumps(d)
            ck.count(txt + str(full), len(txt) > 30)
            hist["with_ref"] += '"$ref"' in txt
            hist["with_not_if_oneOf"] += any('"%s"' % k in txt for k in ("not", "if", "oneOf"))
            nf, err = run_normalize(d, full, dup)
            hist["raises_library_exception"] += bool(err and err.startswith("lib:"))
            ck.cov["traces_validated_against_impl"] += 1
            if err:
                impl = "norm=" + err
                same = impl == m or (err in ("timeout", "fuel") and m in ("norm=fuel", "error=timeout"))
                hist["diverges"] += err in ("timeout", "fuel")
                if err == "timeout" and m.startswith("norm=ok:"):
                    hist["implementation_timeouts"] = hist.get("implementation_timeouts", 0) + 1
            else:
                same = False
                if m.startswith("norm=ok:"):
                    try:
                        mv, _ = J.dec_json(m[len("norm=ok:"):].split(" "))
                        same = J.canon(mv) == J.canon(nf)
                    except Exception:  # noqa
                        same = False
            if not same and m == "error=timeout":
                hist["model_gave_up"] = hist.get("model_gave_up", 0) + 1
                same = True
            if not same and not err and m.startswith("norm=ok:"):
                # The implementation mutates sub-schemas that several alternatives share (in-place list growth in
                # _merge_prefix_items, in-place replacement in _inline_refs); the functional model does not reproduce
                # that aliasing.  Structurally different results are accepted when they are semantically equal:
                # same verdict of the extended validator on every instance of the grid.
                try:
                    mv, _ = J.dec_json(m[len("norm=ok:"):].split(" "))
                    grid = J.instance_grid(d, random.Random(7), limit=80)
                    if all(J.accepts(mv, x) == J.accepts(nf, x) for x in grid):
                        hist["structurally_different_but_equivalent"] = hist.get("structurally_different_but_equivalent", 0) + 1
                        same = True
                except Exception:  # noqa
                    pass
            if not same:
                ck.cov["disagreements_checked"] += 1
                found = False
                if pid == "C06" and in_c06_scope(d):
                    # the model and the code differ here: look for an instance on which the code is wrong
                    for k in range(6):
                        got = oracle_c06(d, full, random.Random(1000 + k))
                        if got:
                            sig, what, x = got[0]
                            ck.violation(sig, what, {"stream": "N", "schema": d, "full_merge": full, "instance": x})
                            found = True
                            break
                if not found and ck.cov["disagreements_checked"] <= 3:
                    ck.violation("correspondence-N", "model (coq/Normalize.v) and normalize.py disagree (full_merge=%s, detect_duplicates=%s)" % (full, dup),
                                 {"stream": "N", "schema": d, "full_merge": full, "detect_duplicates": dup,
                                  "impl": (err or json.dumps(J.canon(nf)))[:700], "model": m[:700],
                                  "theorem": "correspondence stream N"}, found_input=False)
            if pid == "C06":
                if in_c06_scope(d):
                    hist["in_c06_scope"] += 1
                    for sig, what, x in oracle_c06(d, full, orc, corpus_instances.get(json.dumps(d, sort_keys=True), ())):
                        small = d
                        if len(ck.violations) < 4:
                            small = shrink_doc(d, lambda c: any(s.split(":")[0] == sig.split(":")[0] for s, _, _ in oracle_c06(c, full, random.Random(1))))
                            got = oracle_c06(small, full, random.Random(1))
                            if got:
                                sig, what, x = got[0]
                        ck.violation(sig, what, {"stream": "N", "schema": small, "full_merge": full, "instance": x})
            elif guarded(d) and in_c06_scope(d):
                hist["recursive"] += '"$ref"' in txt
                for sig, what in oracle_c16(d, full, dup):
                    ck.violation(sig, what, {"stream": "N", "schema": d, "full_merge": full, "detect_duplicates": dup})
        for (d, full, dup), m in zip(meta, model):
            try:
                with doc_guard(60):
                    one_doc(d, full, dup, m)
            except DocTimeout:
                hist["gave_up_on_document"] = hist.get("gave_up_on_document", 0) + 1
    import sys
    sys.setrecursionlimit(2500)
    try:
        if pid == "C06":
            fragment_part(ck, random.Random(ck.seed * 31 + 5), hist, tier)
        body()
    finally:
        J.uninstall_ordered_sets()
    ck.sample({"schema": docs[0]})
    ck.sample({"schema": docs[3]})
    ck.cov["rule"] = ("random Draft 2020-12 documents of the C06 dialect (boolean schemas, type, enum/const, bounds, multipleOf, lengths, items counts, required, "
                      "properties, additionalProperties, items, prefixItems, allOf/anyOf/oneOf/not/if-then-else, dependentRequired, local $ref/$defs with guarded "
                      "recursion), depth <= 3, constants on a small grid, both merge options, duplicate detection on 30%; every document passes the metaschema; "
                      "distinct = (document, option), non-trivial = json text > 30 chars")
    ck.notes["input_distribution"] = hist
    ck.assumptions = ["integral numeric constants (floats are outside the model; the oracle handles them)",
                      "sets are insertion-ordered in the correspondence run (harness installs an ordered set class into normalize.py); normal forms are compared modulo "
                      "key order, order of type/required/enum lists and the sha1 names of $defs",
                      "sha1 collision-freeness", "oracle validator: jsonschema Draft202012Validator extended with NOT_enum / NOT_multipleOf"]
    if pid == "C16":
        return ck.finish(level="proof", trusted=["model of normalize.py / json_pointer.py: coq/Normalize.v (tied by stream N)"],
                         explanation="theorem C16_normal_form (coq/NormNF.v): whenever the model of normalize() returns, for every input, both merge options and duplicate "
                                     "detection on or off, the result is in the nested normal form with every reference below the size of its own $defs; lemmas: _inline_refs "
                                     "leaves no $ref where _to_dnf looks (RF), _to_dnf yields combinator- and reference-free alternatives, _merge keeps them, the definitions "
                                     "table only grows; tie: stream N compares the model's normal form with the implementation's; termination on guarded recursion is observed "
                                     "(RecursionError / alarm) and by the independent normal-form walker + check_normalized on the implementation's output")
    return ck.finish(level="proof", trusted=["model of normalize.py / json_pointer.py: coq/Normalize.v (tied by stream N)",
                                             "specification of acceptance for the fragment: sem / semb (coq/JsonSemDnf.v, coq/JsonFragB.v), tied to the reference validator by stream NS",
                                             "outside the propositional-scalar fragment the statement is decided by the oracle and the correspondence, not by a theorem"],
                     explanation="C06_fragment / C06_fragment_default / C06_fragment_exec: for every schema built from type, enum, const, the numeric / length / item-count bounds and the negated enum "
                                 "with allOf, anyOf, oneOf, not and if / then / else to any depth, whenever the model of normalize() returns (full merge, no duplicate detection) the any-of list it returns is satisfied by "
                                 "exactly the instances the schema accepts; layers C06_merge_alternatives, C06_invert_alternative, C06_merge_full, C06_invert, C06_to_dnf_fragment; the "
                                 "specification is executable (C06_spec_executable) and compared with jsonschema on generated documents x instance grids (stream NS), as are the model's and the "
                                 "implementation's normal forms. Partial: properties, items, prefixItems, required, $ref, multipleOf, 'integer', dependentRequired and the "
                                 "reduced-merge option are covered by keyword-level laws, the model/implementation correspondence (stream N) and the validator oracle over instance grids only")


# ---------------------------------------------------------------------------------------------
# The propositional-scalar fragment (theorem C06_fragment): documents generated inside it, the model's membership test,
# the executable specification semb against the reference validator, the model's normal form and the implementation's
# normal form on the same instances.
FRAG_TYPES = ["number", "boolean", "string", "null", "object", "array"]


def gen_exclusions(rng):
    """conjunctions and alternatives of excluded values: the negated-enum lists of several alternatives meet in one
    cross product (what one alternative excludes must not leak into its siblings)"""
    pool = [0, 1, 2, 3, 5, 7, "a", "ab", True, None]
    rng.shuffle(pool)
    vals = iter(pool)

    def N():
        k = rng.choice([1, 1, 2])
        return {"not": {"enum": [next(vals) for _ in range(k)]}}
    alts = {"anyOf": [N() for _ in range(rng.choice([2, 2, 3]))]}
    if rng.random() < 0.5:
        alts["type"] = rng.choice(["number", ["number", "string"], ["number", "null", "boolean"]])
    parts = [N(), alts]
    if rng.random() < 0.4:
        parts.append({"minimum": rng.choice([0, 1, 2])})
    if rng.random() < 0.3:
        parts.reverse()
    return {"allOf": parts}


def gen_fragment(rng, depth):
    if depth >= 3 and rng.random() < 0.12:
        return gen_exclusions(rng)
    if depth <= 1 or rng.random() < 0.08:
        if rng.random() < 0.25:
            return rng.random() < 0.6
    d = {}
    ks = ["type", "enum", "minimum", "maximum", "minLength", "maxLength", "minItems", "maxItems"]
    if rng.random() < 0.15:
        ks += ["exclusiveMinimum", "exclusiveMaximum"]       # no merger for these: two of them in a conjunction are refused
    rng.shuffle(ks)
    for k in ks[:rng.choice([0, 1, 1, 2, 2, 3])]:
        if k == "type":
            ts = rng.sample(FRAG_TYPES, rng.choice([1, 1, 2, 3]))
            d[k] = ts[0] if len(ts) == 1 and rng.random() < 0.5 else ts
        elif k == "enum":
            pool = [0, 1, 2, 3, 5, -1, 7, True, False, None, "", "a", "ab", "abc", "xyz"]
            d[k] = rng.sample(pool, rng.choice([0, 1, 2, 3, 4]))
        elif k in ("minLength", "maxLength", "minItems", "maxItems"):
            d[k] = rng.choice([0, 1, 2, 3, 4])
        else:
            d[k] = rng.choice([-2, 0, 1, 3, 5, 7, 10])
    if depth > 1:
        def member():
            # excluded values meet each other in conjunctions and cross products
            if rng.random() < 0.3:
                return {"not": {"enum": rng.sample([0, 1, 2, 3, 5, "a", "ab", True, None], rng.choice([1, 1, 2]))}}
            return gen_fragment(rng, depth - 1)
        for k, pr in (("allOf", 0.4), ("anyOf", 0.4), ("oneOf", 0.25)):
            if rng.random() < pr:
                d[k] = [member() for _ in range(rng.choice([1, 2, 2, 3]))]
        if rng.random() < 0.4:
            d["not"] = member() if rng.random() < 0.5 else gen_fragment(rng, depth - 1)
        if rng.random() < 0.3:
            # conditionals: all shapes, including a lone if and then / else without if
            shape = rng.choice(["ite", "it", "ie", "i", "t", "e", "te"])
            for c, k in (("i", "if"), ("t", "then"), ("e", "else")):
                if c in shape:
                    d[k] = gen_fragment(rng, depth - 1)
    if rng.random() < 0.15:
        d["const"] = rng.choice([0, 1, 2, 3, 5, True, None, "a", "ab"])
    return d


def frag_instances(d, rng):
    out = []
    for x in J.instance_grid(d, rng, limit=60):
        try:
            J.enc_json(x)
        except ValueError:
            continue
        out.append(x)
    return out[:48]


def fragment_part(ck, rng, hist, tier):
    n = 150 if tier == "quick" else 4000
    docs, seen = [], set()
    while len(docs) < n:
        depth = rng.choice([1, 2, 2, 3, 3, 4])
        d = gen_fragment(rng, depth)
        if isinstance(d, bool):
            continue
        t = json.dumps(d, sort_keys=True)
        if t in seen or not J.metaschema_ok(d):
            continue
        seen.add(t)
        docs.append((d, depth + 1))
    lines, meta = [], []
    for d, depth in docs:
        xs = frag_instances(d, random.Random(len(lines) + ck.seed))
        lines.append(" ".join(["NS", str(depth), str(FUEL)] + J.enc_json(d) + [str(len(xs))] + [t for x in xs for t in J.enc_json(x)]))
        meta.append((d, xs))
    model = run_driver(lines)
    fh = {"documents": len(docs), "instances": 0, "in_fragment_by_the_model": 0, "with_not": 0, "with_anyOf_or_allOf": 0,
          "normalize_raises_library_exception": 0, "accepted_verdicts": 0, "rejected_verdicts": 0}
    def one_fragment_doc(d, xs, m):
        txt = json.dumps(d)
        fh["with_not"] += '"not"' in txt
        fh["with_anyOf_or_allOf"] += ('"anyOf"' in txt) or ('"allOf"' in txt)
        fh["with_oneOf"] = fh.get("with_oneOf", 0) + ('"oneOf"' in txt)
        fh["with_conditional"] = fh.get("with_conditional", 0) + any('"%s"' % k in txt for k in ("if", "then", "else"))
        fh["with_const"] = fh.get("with_const", 0) + ('"const"' in txt)
        parts = dict(p.split("=", 1) for p in m.split("|") if "=" in p)
        if m.startswith("error=timeout"):
            fh["model_gave_up"] = fh.get("model_gave_up", 0) + 1
            return
        if parts.get("frag") != "1":
            ck.violation("fragment-generator", "the model's fragb rejects a generated document of the fragment (or the driver failed: %s)" % m[:80],
                         {"stream": "NS", "schema": d, "theorem": "C06_spec_executable (membership)"}, found_input=False)
            return
        fh["in_fragment_by_the_model"] += 1
        ck.cov["traces_validated_against_impl"] += 1
        want = "".join("1" if J.accepts(d, x) else "0" for x in xs)
        fh["instances"] += len(xs)
        fh["accepted_verdicts"] += want.count("1")
        fh["rejected_verdicts"] += want.count("0")
        if parts.get("sem") != want:
            i = next((i for i in range(len(xs)) if i >= len(parts.get("sem", "")) or parts["sem"][i] != want[i]), 0)
            ck.violation("spec-vs-validator", "the executable specification semb (coq/JsonFragB.v) and the reference validator disagree on instance %r" % (xs[i],),
                         {"stream": "NS", "schema": d, "instance": xs[i], "model": parts.get("sem"), "validator": want,
                          "theorem": "C06_spec_executable: the meaning [sem] of the fragment is not Draft 2020-12 on this input"}, found_input=False)
            return
        # the implementation's normal form on the same instances: the property itself
        if fh.get("implementation_timeouts", 0) >= 4:
            fh["skipped_after_repeated_timeouts"] = fh.get("skipped_after_repeated_timeouts", 0) + 1
            return
        nf, err = run_normalize(d, True, False)
        if err == "timeout" and parts.get("nf", "").startswith("ok:"):
            fh["implementation_timeouts"] = fh.get("implementation_timeouts", 0) + 1
            ck.violation("fragment-normalize-does-not-return", "normalize does not return within %d s on a document of the fragment for which the model returns at once" % TIME_LIMIT,
                         {"stream": "NS", "schema": d, "theorem": "correspondence stream NS (the model returns, the implementation does not)"}, found_input=False)
            return
        if err:
            fh["normalize_raises_library_exception"] += err.startswith("lib:")
            mnf = parts.get("nf", "")
            if mnf != err and mnf != "timeout" and err not in ("timeout", "fuel"):
                ck.cov["disagreements_checked"] += 1
                if not err.startswith("lib:"):
                    ck.violation("fragment-normalize-raises", "normalize raises %s on a document of the fragment" % err, {"stream": "NS", "schema": d})
            return
        got = "".join("1" if J.accepts(nf, x) else "0" for x in xs)
        if got != want:
            i = next(i for i in range(len(xs)) if got[i] != want[i])
            ck.violation("acceptance-changed:fragment", "normalize changes the verdict on %r: the schema says %s, its normal form says %s" % (
                xs[i], want[i] == "1", got[i] == "1"), {"stream": "N", "schema": d, "full_merge": True, "instance": xs[i]})
            return
        mnf = parts.get("nf", "")
        if mnf == "timeout":
            fh["model_gave_up"] = fh.get("model_gave_up", 0) + 1
        elif mnf != "ok:" + want:
            ck.cov["disagreements_checked"] += 1
            ck.violation("correspondence-NS", "the model's normal form, evaluated keyword set by keyword set, disagrees with the validator (model %s, validator %s)" % (mnf[:60], want[:60]),
                         {"stream": "NS", "schema": d, "theorem": "C06_fragment_exec / correspondence stream NS"}, found_input=False)
    for (d, xs), m in zip(meta, model):
        try:
            with doc_guard(40):
                one_fragment_doc(d, xs, m)
        except DocTimeout:
            fh["gave_up_on_document"] = fh.get("gave_up_on_document", 0) + 1
    hist["fragment"] = fh


def replay(pid, path):
    d = json.load(open(path))
    J.install_ordered_sets()
    if pid == "C06":
        res = [(s, w) for s, w, _ in oracle_c06(d["schema"], d.get("full_merge", True), random.Random(1))]
    else:
        res = oracle_c16(d["schema"], d.get("full_merge", True), d.get("detect_duplicates", False))
    for sig, what in res:
        print("replayed: %s [%s]" % (what, sig))
    return 1 if res else 0

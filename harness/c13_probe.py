"""Runs a history of calls followed by a probe, prints the probe's observation as one JSON line.
Used both in-process (history non-empty) and as a fresh interpreter (empty history)."""
import sys, json, random, copy
from xml.etree import ElementTree as ET
import fences_env

fences_env.load()
import grammars as GM  # noqa: E402


def canon_sample(kind, s):
    if kind == "xml":
        return ET.tostring(s.getroot(), encoding="unicode")
    try:
        return json.dumps(s, sort_keys=True)
    except TypeError:
        return repr(s)


def struct(x, seen=None):
    """structural snapshot of an object graph whose classes define no __eq__ (the grammar objects)"""
    seen = seen if seen is not None else set()
    if isinstance(x, (str, int, float, bool, type(None))):
        return x
    if isinstance(x, (list, tuple)):
        return [struct(y, seen) for y in x]
    if isinstance(x, dict):
        return sorted((repr(k), struct(v, seen)) for k, v in x.items())
    if id(x) in seen:
        return "<cycle>"
    seen = seen | {id(x)}
    d = getattr(x, "__dict__", None)
    if d is None:
        return repr(x)
    return [type(x).__name__, sorted((k, struct(v, seen)) for k, v in d.items())]


def process(action, observe=True, partial=None):
    """action = [kind, payload]; returns (observation, input_unchanged)"""
    from fences import parse_regex, parse_grammar, parse_json_schema, parse_xml_schema
    from fences.json_schema.normalize import normalize
    kind, payload = action[0], action[1]
    before = copy.deepcopy(payload)
    obs = []
    try:
        if kind == "normalize":
            obs.append(json.dumps(normalize(payload), sort_keys=True))
            return obs, payload == before
        if kind == "json":
            g = parse_json_schema(payload)
        elif kind == "regex":
            g = parse_regex(payload)
        elif kind == "grammar":
            gr = GM.to_fences([(nm, tup(r)) for nm, r in payload["rules"]])
            gr_before = struct(gr)
            g = parse_grammar(gr, "n%d" % payload["start"])
        else:
            el = ET.fromstring(payload)
            text_before = ET.tostring(el, encoding="unicode")
            g = parse_xml_schema(el)
        count = 0
        for e in g.generate_paths():
            s1 = g.execute(e.path)
            c1 = canon_sample(kind, s1)
            s2 = g.execute(e.path)                      # executing the same path again returns an equal sample
            c2 = canon_sample(kind, s2)
            obs.append([bool(e.is_valid), c1] if c1 == c2 else [bool(e.is_valid), c1, "RE-EXECUTION DIFFERS", c2])
            count += 1
            if partial is not None and count >= partial:
                break                                   # partially consumed generator
    except RecursionError:
        obs.append("RecursionError")
    except Exception as e:  # noqa
        obs.append("exception:" + type(e).__name__)
    if kind == "grammar" and 'gr_before' in dir() and struct(gr) != gr_before:
        return obs, False                               # the caller's grammar objects were modified
    unchanged = (payload == before) if kind != "xml" else (ET.tostring(el, encoding="unicode") == text_before if 'el' in dir() else True)
    return obs, unchanged


def tup(x):
    if isinstance(x, list) and x and isinstance(x[0], str) and x[0] in ("T", "N", "C", "A", "R", "P"):
        return tuple([tup(z) for z in y] if (i == 1 and x[0] in "CA") else tup(y) for i, y in enumerate(x))
    return x


def main():
    job = json.loads(sys.stdin.read())
    sys.setrecursionlimit(2500)
    modified = []
    for i, a in enumerate(job["history"]):
        _, same = process(a, partial=a[2] if len(a) > 2 else None)
        if not same:
            modified.append(i)
    random.seed(job["seed"])
    obs, unchanged = process(job["probe"])
    print(json.dumps({"obs": obs, "unchanged": unchanged, "modified": modified}))


if __name__ == "__main__":
    main()

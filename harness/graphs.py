"""Stream G: random / enumerated programs over the public node API, run on the implementation
(core/node.py) and printed in the same canonical form as ocaml/driver.ml prints the model."""
import sys, random
import fences_env

fences_env.load()
from fences.core import node as N  # noqa: E402
from fences.core.exception import FencesException  # noqa: E402

TRACE = []


class RLeaf(N.Leaf):
    def __init__(self, k, id, valid):
        super().__init__(id, valid)
        self.k = k

    def apply(self, data):
        TRACE.append((self.k, data))
        return None if self.k % 3 == 2 else ("v", self.k)     # some leaves produce None (JSON null)


class RLeafV(RLeaf):
    """a leaf class with value semantics, as a user's dataclass-like subclass has: two leaves with the same payload compare
    equal and hash alike (the library must keep telling nodes apart by identity)"""
    def __eq__(self, other):
        return isinstance(other, RLeafV) and (self.is_valid, self.id) == (other.is_valid, other.id)

    def __hash__(self):
        return hash((self.is_valid, self.id))


VALUE_LEAVES = False


class RDec(N.Decision):
    def __init__(self, k, id, all_):
        super().__init__(id, all_)
        self.k = k

    def apply(self, data):
        TRACE.append((self.k, data))
        return ("d", self.k)


class RNoOp(N.NoOpDecision):
    def __init__(self, k, id, all_):
        super().__init__(id, all_)
        self.k = k

    def apply(self, data):
        TRACE.append((self.k, data))
        return ("d", self.k)


class RRef(N.Reference):
    def __init__(self, k, id, name):
        super().__init__(id, name)
        self.k = k


def enc_id(i):
    return None if i is None else ("" if i == 0 else "n%d" % i)


def build(ops):
    """ops: ('L', valid, id) | ('D', all, noop, id) | ('R', name, id) | ('T', s, t)"""
    nodes = []
    for o in ops:
        k = len(nodes)
        if o[0] == 'L':
            nodes.append((RLeafV if VALUE_LEAVES else RLeaf)(k, enc_id(o[2]), bool(o[1])))
        elif o[0] == 'D':
            cls = RNoOp if o[2] else RDec
            nodes.append(cls(k, enc_id(o[3]), bool(o[1])))
        elif o[0] == 'R':
            nodes.append(RRef(k, enc_id(o[2]), enc_id(o[1])))
        elif o[0] == 'T':
            nodes[o[1]].add_transition(nodes[o[2]])
        elif o[0] == 'G':
            try:
                for _ in nodes[0].generate_paths():
                    pass
            except Exception:  # noqa
                pass
    return nodes


def ops_tokens(ops):
    t = [str(len(ops))]
    for o in ops:
        if o[0] == 'L':
            t += ['0', str(int(o[1])), str(-1 if o[2] is None else o[2])]
        elif o[0] == 'D':
            t += ['1', str(int(o[1])), str(int(o[2])), str(-1 if o[3] is None else o[3])]
        elif o[0] == 'R':
            t += ['2', str(o[1]), str(-1 if o[2] is None else o[2])]
        elif o[0] == 'G':
            t += ['4']
        else:
            t += ['3', str(o[1]), str(o[2])]
    return t


def case_line(variant, fuel, root, ops, xpaths=()):
    t = ['G'] + [str(int(v)) for v in variant] + [str(fuel), str(root)] + ops_tokens(ops)
    t.append(str(len(xpaths)))
    for p in xpaths:
        t.append(str(len(p)))
        t += [str(i) for i in p]
    return " ".join(t)


_LIB = {'ResolveReferenceException': 'ResolveReference', 'InternalException': 'Internal',
        'NormalizationException': 'Normalization', 'JsonPointerException': 'JsonPointer',
        'JsonSchemaException': 'JsonSchema', 'RegexException': 'Regex', 'GrammarException': 'Grammar',
        'XmlSchemaException': 'XmlSchema', 'OpenApiException': 'OpenApi', 'ConfigException': 'Config'}
_PY = {'IndexError', 'KeyError', 'AttributeError', 'AssertionError', 'TypeError', 'ValueError',
       'NotImplementedError'}


def err_str(e):
    if isinstance(e, RecursionError):
        return "fuel"
    n = type(e).__name__
    if isinstance(e, FencesException):
        return "lib:" + _LIB.get(n, n)
    return "py:" + (n if n in _PY else "Other")


def ints(l):
    return ".".join(str(i) for i in l)


def res(fn, show):
    try:
        return "ok:" + show(fn())
    except Exception as e:  # noqa
        return err_str(e)


def dist(x):
    return "inf" if x == float('inf') else str(x)


def execute_trace(root, path):
    """nodes applied, in order"""
    del TRACE[:]
    root.execute(list(path))
    return [k for k, _ in TRACE]


def _tokd(d):
    return "-" if d is None else str(d[1]) if isinstance(d, tuple) and d[0] == "d" else "?%r" % (d,)


def execute_full(root, path):
    """applied nodes with the data each received, and the returned value"""
    del TRACE[:]
    r = root.execute(list(path))
    tr = ".".join("%d<%s" % (k, _tokd(d)) for k, d in TRACE)
    return tr + ">" + ("N" if r is None else str(r[1]) if isinstance(r, tuple) and r[0] == "v" else "?%r" % (r,))


def observe(ops, root, xpaths=()):
    return observe_nodes(build(ops), ops, root, xpaths)


def observe_nodes(nodes, ops, root, xpaths=()):
    r = nodes[root]
    out = ["wf=%d" % wf(ops, root), "prod=%d" % productive(ops), "acyc=%d" % acyclic(ops),
           "items=" + res(lambda: [n.k for n in r.items()], ints)]
    entries = []
    status = "ok:"
    gen = r.generate_paths()
    while True:
        try:
            entries.append(next(gen))
        except StopIteration:
            break
        except Exception as ex:  # noqa
            status = err_str(ex)
            break
    if not entries and status != "ok:":
        # failed before the first entry (analysis or first path): only the error class is compared
        out.append("fail=" + status)
    else:
        its = [n for n in r.items()]
        valid = [n.k for n in its if isinstance(n, N.Leaf) and n.is_valid]
        invalid = [n.k for n in its if isinstance(n, N.Leaf) and not n.is_valid]
        out.append("valid=" + ints(valid))
        out.append("invalid=" + ints(invalid))
        a = []
        reach = set(id(n) for n in its)
        for n in nodes:
            if id(n) not in reach:
                continue           # annotations are only compared on the nodes items() yields
            for p, i in enumerate(n.incoming_transitions):
                a.append("r%d.%d=%s," % (n.k, p, dist(i._len_to_root)))
            if isinstance(n, N.Decision):
                for i, t in enumerate(n.outgoing_transitions):
                    a.append("v%d.%d=%s," % (n.k, i, dist(t._len_to_valid_node)))
        out.append("annot=" + "".join(a))
        out.append("entries=" + ";".join("%d/%s/%d" % (e.target.k, ints(e.path), int(e.is_valid)) for e in entries))
        out.append("status=" + status)
        out.append("exec=" + ";".join(res(lambda e=e: execute_full(r, e.path), str) for e in entries))
    out.append("xexec=" + ";".join(res(lambda p=p: execute_full(r, p), str) for p in xpaths))
    return "|".join(out)


# ---------------------------------------------------------------------------------------------
# generators

def wf(ops, root):
    """well-formed in the sense of C03: decisions have >= 1 child, all nodes reachable from root,
    root has no incoming transition, no references."""
    kinds = [o for o in ops if o[0] not in 'TG']
    n = len(kinds)
    outs = {i: [] for i in range(n)}
    indeg = [0] * n
    for o in ops:
        if o[0] == 'T':
            outs[o[1]].append(o[2])
            indeg[o[2]] += 1
    if any(k[0] == 'R' for k in kinds):
        return False
    if indeg[root]:
        return False
    for i, k in enumerate(kinds):
        if k[0] == 'D' and not outs[i]:
            return False
    seen = {root}
    st = [root]
    while st:
        x = st.pop()
        for y in outs[x]:
            if y not in seen:
                seen.add(y)
                st.append(y)
    return len(seen) == n


def _tables(ops):
    kinds = [o for o in ops if o[0] not in 'TG']
    outs = {i: [] for i in range(len(kinds))}
    for o in ops:
        if o[0] == 'T':
            outs[o[1]].append(o[2])
    return kinds, outs


def vc_set(ops):
    """nodes that have a completion made of valid leaves only (least fixed point)"""
    kinds, outs = _tables(ops)
    vc = [False] * len(kinds)
    changed = True
    while changed:
        changed = False
        for i, k in enumerate(kinds):
            if vc[i]:
                continue
            if k[0] == 'L':
                v = bool(k[1])
            elif k[0] == 'R':
                v = False
            elif k[1]:
                v = all(vc[t] for t in outs[i])
            else:
                v = any(vc[t] for t in outs[i])
            if v:
                vc[i] = True
                changed = True
    return vc


def productive(ops):
    kinds, _ = _tables(ops)
    vc = vc_set(ops)
    return all(vc[i] for i, k in enumerate(kinds) if k[0] == 'D')


def acyclic(ops):
    kinds, outs = _tables(ops)
    safe = [False] * len(kinds)
    for _ in range(len(kinds)):
        safe = [all(safe[t] for t in outs[i]) for i in range(len(kinds))]
    return all(safe)


def random_program(rng: random.Random, max_nodes=10, allow_bad=True):
    """Random API program.  Node 0 is the root decision.  Biased towards sharing, repeated
    children (same child several times under one parent, also at the same index under different
    parents), cycles, leaves under do-all decisions, invalid leaves anywhere."""
    n = rng.randint(1, max_nodes)
    p_dec = rng.choice([0.3, 0.5, 0.7])
    p_all = rng.choice([0.2, 0.5, 0.8])
    p_inv = rng.choice([0.1, 0.3, 0.6])
    kinds = []
    for i in range(n):
        if i == 0 and n > 1 or (i > 0 and i < n - 1 and rng.random() < p_dec):
            kinds.append(('D', rng.random() < p_all, rng.random() < 0.5, None))
        else:
            kinds.append(('L', rng.random() >= p_inv, None))
    decs = [i for i, k in enumerate(kinds) if k[0] == 'D']
    edges = []
    if decs:
        # spanning attachment so that (mostly) everything is reachable
        for i in range(1, n):
            cands = [d for d in decs if d < i] or decs
            if allow_bad and rng.random() < 0.03:
                continue
            edges.append((rng.choice(cands), i))
        # extra edges: sharing / repetition / cycles
        extra = rng.randint(0, max(1, n))
        for _ in range(extra):
            s = rng.choice(decs)
            mode = rng.random()
            if mode < 0.35 and edges:
                t = rng.choice(edges)[1]          # share an already attached child
            elif mode < 0.55:
                own = [t for (ss, t) in edges if ss == s]
                t = rng.choice(own) if own else rng.randrange(n)   # repeat own child
            elif mode < 0.8:
                t = rng.choice(decs)              # likely a cycle
            else:
                t = rng.randrange(n)
            if t == 0 and not (allow_bad and rng.random() < 0.1):
                continue
            edges.append((s, t))
        # make sure decisions have children (mostly)
        for d in decs:
            if not any(s == d for s, _ in edges):
                if allow_bad and rng.random() < 0.05:
                    continue
                t = rng.randrange(1, n) if n > 1 else 0
                edges.append((d, t))
        rng.shuffle(edges)
    tops = [('T', s, t) for s, t in edges]
    # multi-step programs: generate_paths() exhausted in between, then the graph keeps growing
    if tops and rng.random() < 0.15:
        for _ in range(rng.choice([1, 1, 2])):
            tops.insert(rng.randint(1, len(tops)), ('G',))
    ops = list(kinds) + tops
    return ops, 0


def productive_cyclic_program(rng, max_nodes=10):
    """cyclic graphs in which every decision can be completed with valid leaves: every choose-one decision gets a
    valid leaf among its children, do-all decisions only point to valid leaves or choose-one decisions; back edges
    from choose-one decisions to any non-root decision close the cycles"""
    n = rng.randint(4, max(4, max_nodes))
    kinds = [('D', False, rng.random() < 0.5, None)]
    for i in range(1, n):
        m = rng.random()
        if m < 0.3:
            kinds.append(('D', False, rng.random() < 0.5, None))
        elif m < 0.45:
            kinds.append(('D', True, rng.random() < 0.5, None))
        else:
            kinds.append(('L', rng.random() < 0.75, None))
    ones = [i for i, k in enumerate(kinds) if k[0] == 'D' and not k[1]]
    alls = [i for i, k in enumerate(kinds) if k[0] == 'D' and k[1]]
    valid = [i for i, k in enumerate(kinds) if k[0] == 'L' and k[1]]
    if not valid:
        kinds.append(('L', True, None))
        valid = [len(kinds) - 1]
    n = len(kinds)
    edges = []
    for i in range(1, n):                      # reachability
        cands = [d for d in ones + alls if d < i] or [0]
        s = rng.choice(cands)
        if s in alls and not (kinds[i][0] == 'L' and kinds[i][1]) and i not in ones:
            s = rng.choice([d for d in ones if d < i] or [0])
        edges.append((s, i))
    for d in ones:                             # a valid leaf under every choose-one decision
        edges.append((d, rng.choice(valid)))
    for d in alls:
        if not any(s == d for s, _ in edges):
            edges.append((d, rng.choice(valid)))
    for _ in range(rng.randint(1, 4)):         # cycles
        s = rng.choice(ones)
        t = rng.choice([d for d in ones + alls if d != 0] or [rng.choice(valid)])
        edges.append((s, t))
    rng.shuffle(edges)
    return list(kinds) + [('T', s, t) for s, t in edges], 0


def nested_program(rng, depth=3):
    """bushy trees of decisions, mostly do-all, with invalid leaves at any child position, plus a few shared children:
    do-all decisions off the path to the target and below it (where _generate, not _forward, runs them)"""
    kinds, edges = [], []
    p_all = rng.choice([0.5, 0.7, 0.9])
    p_inv = rng.choice([0.2, 0.35, 0.5])

    def new(k):
        kinds.append(k)
        return len(kinds) - 1

    def grow(n, d):
        for _ in range(rng.choice([1, 2, 2, 3])):
            if d > 0 and rng.random() < 0.55 and len(kinds) < 18:
                c = new(('D', rng.random() < p_all, rng.random() < 0.5, None))
                edges.append((n, c))
                grow(c, d - 1)
            else:
                edges.append((n, new(('L', rng.random() >= p_inv, None))))
    root = new(('D', rng.random() < p_all, False, None))
    grow(root, depth)
    decs = [i for i, k in enumerate(kinds) if k[0] == 'D']
    for _ in range(rng.choice([0, 0, 1, 2])):          # sharing (towards later nodes only: no cycles)
        s = rng.choice(decs)
        later = [i for i in range(s + 1, len(kinds))]
        if later:
            edges.append((s, rng.choice(later)))
    return list(kinds) + [('T', s, t) for s, t in edges], root


def grammar_like_program(rng, max_nt=3):
    """graphs shaped like converted grammars / schemas: choose-one decisions (non-terminals) over do-all decisions
    (sequences) whose items are valid leaves -- the same leaf attached up to three times, as a repetition does --
    and references to non-terminals, recursive ones included; every non-terminal has one alternative made of leaves
    only (at a random position, often after the recursive alternatives), so every decision has a valid completion.
    Invalid leaves stand as alternatives of their own."""
    kinds, edges = [], []

    def new(k):
        kinds.append(k)
        return len(kinds) - 1
    root = new(('D', rng.random() < 0.5, False, None))
    nts = [new(('D', False, rng.random() < 0.5, None)) for _ in range(rng.randint(1, max_nt))]
    edges.append((root, nts[0]))
    for nt in nts:
        n_alt = rng.randint(1, 3)
        base_pos = rng.choice([n_alt, n_alt, rng.randint(0, n_alt)])
        for a in range(n_alt + 1):
            seq = new(('D', True, rng.random() < 0.3, None))
            edges.append((nt, seq))
            if a == base_pos:
                leaf = new(('L', True, None))
                for _ in range(rng.choice([1, 2, 2, 3])):
                    edges.append((seq, leaf))
                if rng.random() < 0.3:
                    edges.append((seq, new(('L', True, None))))
            else:
                for _ in range(rng.randint(1, 3)):
                    m = rng.random()
                    if m < 0.45:
                        leaf = new(('L', True, None))
                        for _ in range(rng.choice([1, 1, 2])):
                            edges.append((seq, leaf))
                    else:
                        edges.append((seq, rng.choice(nts)))
        if rng.random() < 0.3:
            edges.append((nt, new(('L', False, None))))
    return list(kinds) + [('T', s, t) for s, t in edges], root


def complete_paths(ops, root, depth=6, limit=40):
    """enumerate complete paths (index lists) up to a number of choices, by simulation"""
    kinds, outs = _tables(ops)
    res_ = []

    def go(stack, path, fuel):
        # stack: nodes still to run (continuation)
        if len(res_) >= limit or fuel <= 0:
            return
        if not stack:
            res_.append(path)
            return
        n = stack[0]
        rest = stack[1:]
        k = kinds[n]
        if k[0] == 'L':
            go(rest, path, fuel - 1)
        elif k[0] == 'R':
            return
        elif k[1]:
            go(list(outs[n]) + rest, path, fuel - 1)
        else:
            if len(path) >= depth:
                return
            for i, t in enumerate(outs[n]):
                go([t] + rest, path + [i], fuel - 1)
    go([root], [], 60)
    return res_


def mutate_path(rng, p, width=3):
    q = list(p)
    m = rng.random()
    if m < 0.3 and q:
        q.pop()
    elif m < 0.6:
        q.append(rng.randrange(width))
    elif q:
        q[rng.randrange(len(q))] = rng.randrange(width + 1)
    return q

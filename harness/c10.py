"""C10: OpenAPI -- a request is labelled valid exactly when all its parts conform."""
import random, json, copy, re, sys
import fences_env
from common import Check, run_driver
import oagen, graphs, jsonschemas as J
import c18, core

fences_env.load()
import jsonschema  # noqa: E402
from fences.open_api.open_api import OpenApi, ParameterPosition  # noqa: E402
from fences.open_api import generate as G  # noqa: E402

APPLIED = []
_orig_param_apply = G.InsertParamLeaf.apply
_orig_body_apply = G.InsertBodyLeaf.apply


def _param_apply(self, data):
    APPLIED.append(("param", self))
    return _orig_param_apply(self, data)


def _body_apply(self, data):
    APPLIED.append(("body", self))
    return _orig_body_apply(self, data)


def conforms(schema, value):
    try:
        return jsonschema.Draft202012Validator(schema).is_valid(value)
    except Exception:  # noqa
        return None


def decode_scalar(text, schema):
    """what a receiver reads back from the serialised parameter, given the declared type"""
    def types_of(s, root):
        t = s.get("type")
        if t is None and "$ref" in s:
            cur = root
            for p in s["$ref"][2:].split("/"):
                cur = cur[p]
            return types_of(cur, root)
        return [t] if isinstance(t, str) else (t or [])
    ts = types_of(schema, schema)
    if not isinstance(text, str):
        return text
    if "integer" in ts or "number" in ts:
        try:
            return int(text)
        except ValueError:
            try:
                return float(text)
            except ValueError:
                return text
    if "boolean" in ts:
        return {"true": True, "false": False}.get(text, text)
    return text


def oracle(desc, cache=None):
    res = []
    try:
        api = OpenApi.from_dict(copy.deepcopy(desc))
    except Exception as e:  # noqa
        return res
    cache = cache if cache is not None else G.SampleCache()
    G.InsertParamLeaf.apply = _param_apply
    G.InsertBodyLeaf.apply = _body_apply
    try:
        for op in api.operations.values():
            try:
                graph = G.generate_all(op, cache)
                entries = list(graph.generate_paths())
            except Exception as e:  # noqa
                if not graphs.err_str(e).startswith("lib:"):
                    res.append(("generate-all-raises", "generate_all / generate_paths raises %s for operation %s" % (graphs.err_str(e), op.operation_id), op.operation_id))
                continue
            declared_path = {p.name for p in op.parameters if p.position == ParameterPosition.PATH}
            placeholders = set(re.findall(r"\{([^}]+)\}", op.path))
            for e in entries:
                del APPLIED[:]
                try:
                    rq = graph.execute(e.path)
                except Exception as ex:  # noqa
                    res.append(("request-does-not-execute", "executing a generated path raises %s (operation %s)" % (graphs.err_str(ex), op.operation_id), op.operation_id))
                    break
                applied = list(APPLIED)
                if rq.operation.method != op.method:
                    res.append(("wrong-method", "request method %r, operation method %r" % (rq.operation.method, op.method), op.operation_id))
                if placeholders <= declared_path:
                    try:
                        path = rq.make_path()
                    except AssertionError:
                        path = None
                    if path is None or "{" in path.split("?")[0] or "}" in path.split("?")[0]:
                        res.append(("placeholder-left", "path %r of operation %s still has a placeholder" % (path, op.operation_id), op.operation_id))
                # what the request carries
                carried = {}
                ok_parts = True
                for kind, leaf in applied:
                    if kind == "param":
                        carried[(leaf.parameter.name, leaf.parameter.position)] = leaf
                        c = conforms(leaf.parameter.schema, leaf.raw_value)
                        # the value the request really carries is the serialised one
                        p = leaf.parameter
                        store = {ParameterPosition.QUERY: rq.query_parameters, ParameterPosition.HEADER: rq.headers,
                                 ParameterPosition.PATH: rq.path_parameters, ParameterPosition.COOKIE: rq.cookies}[p.position]
                        if isinstance(leaf.raw_value, (str, int, float, bool)) and p.name in store and c is not None:
                            back = decode_scalar(store[p.name], p.schema)
                            cb = conforms(p.schema, back)
                            if cb is not None and cb != c and type(back) in (int, float, bool, str):
                                res.append(("carried-value-differs", "operation %s: parameter %s carries %r (read back as %r) for the sample %r: one conforms to the schema, the other does not" % (
                                    op.operation_id, p.name, store[p.name], back, leaf.raw_value), op.operation_id))
                                return res
                        if c is None:
                            ok_parts = None
                        elif not c and ok_parts is not None:
                            ok_parts = False
                    else:
                        carried["body"] = leaf
                        c = conforms(op.request_body.schema, leaf.body)
                        if c is None:
                            ok_parts = None
                        elif not c and ok_parts is not None:
                            ok_parts = False
                missing = [p.name for p in op.parameters if p.required and (p.name, p.position) not in carried]
                if op.request_body and op.request_body.required and "body" not in carried:
                    missing.append("<body>")
                if ok_parts is None:
                    continue
                expected = ok_parts and not missing
                if bool(e.is_valid) != expected:
                    detail = "; ".join(["%s.%s=%r" % (k[0], k[1].value, v.raw_value) if k != "body" else "body=%s" % json.dumps(v.body)[:60] for k, v in carried.items()])
                    res.append(("label-disagrees", "operation %s: request labelled %s but %s (carried: %s)" % (
                        op.operation_id, "valid" if e.is_valid else "invalid",
                        "all parts conform and nothing required is missing" if expected else ("required missing: %s" % missing if missing else "some carried value violates its schema"),
                        detail[:200]), op.operation_id))
                    break
    finally:
        G.InsertParamLeaf.apply = _orig_param_apply
        G.InsertBodyLeaf.apply = _orig_body_apply
    return res


def graph_obs(g, op, names, vals):
    """what generate_paths yields for the graph of generate_all, and what every path applies, group by group
    (the implementation's side of correspondence stream OG)"""
    G.InsertParamLeaf.apply = _param_apply
    G.InsertBodyLeaf.apply = _body_apply
    try:
        try:
            entries = list(g.generate_paths())
        except Exception as e:  # noqa
            return "|fail=" + graphs.err_str(e)
        n_groups = len(op.parameters) + (1 if op.request_body else 0)
        out = []
        for e in entries:
            del APPLIED[:]
            try:
                g.execute(e.path)
            except Exception as ex:  # noqa
                out.append("%s:%d:!%s" % (graphs.ints(e.path), int(bool(e.is_valid)), graphs.err_str(ex)))
                continue
            picks = ["o"] * n_groups
            for kind, leaf in list(APPLIED):
                if kind == "param":
                    gi = [i for i, p in enumerate(op.parameters) if p is leaf.parameter]
                    if len(gi) != 1:
                        picks.append("!foreign-parameter")
                        continue
                    picks[gi[0]] = str(vals(c18.jtext(leaf.raw_value)))
                else:
                    picks[n_groups - 1] = str(vals(c18.jtext(leaf.body)))
            out.append("%s:%d:%s" % (graphs.ints(e.path), int(bool(e.is_valid)), ".".join(picks)))
        return "|entries=" + ",".join(out) + "|status=ok:|wf=1"
    finally:
        G.InsertParamLeaf.apply = _orig_param_apply
        G.InsertBodyLeaf.apply = _orig_body_apply


def og_case(desc):
    """stream OG: the plan and the request graph of the model (coq/OpenApi.v, coq/OpenApiGraph.v) against generate_all"""
    ops = c18.fresh_ops(desc)
    h = [("all", i, None) for i in range(len(ops))]
    return c18.model_line(desc, h, stream=["OG"] + [str(x) for x in core.VARIANT], extra=graph_obs)


def shrink(desc, bad):
    changed = True
    while changed:
        changed = False
        for path in list(desc["paths"].keys()):
            if len(desc["paths"]) > 1:
                c = copy.deepcopy(desc)
                del c["paths"][path]
                if bad(c):
                    desc, changed = c, True
                    break
            for method, op in desc["paths"][path].items():
                for i in range(len(op.get("parameters", []))):
                    c = copy.deepcopy(desc)
                    p = c["paths"][path][method]["parameters"].pop(i)
                    if p["in"] == "path":
                        continue
                    if bad(c):
                        desc, changed = c, True
                        break
                if changed:
                    break
                if "requestBody" in op:
                    c = copy.deepcopy(desc)
                    del c["paths"][path][method]["requestBody"]
                    if bad(c):
                        desc, changed = c, True
                        break
            if changed:
                break
    return desc


def run(pid, tier):
    ck = Check(pid, tier)
    if not ck.coq():
        ck.violation("coq-obligation", "coq/Properties/C10.v no longer checks: %s" % ck.obl["log"][-300:],
                     {"theorem": ck.obl["file"]}, found_input=False)
    rng = random.Random(ck.seed * 839 + 17)
    n = 60 if tier == "quick" else 1500
    hist = {"operations": 0, "with_body": 0, "parameters": 0}
    sys.setrecursionlimit(2500)
    shared = G.SampleCache()          # one cache for all descriptions of the run: equal $ref names, different components
    lines, expect, meta = [], [], []
    for _ in range(n):
        desc = oagen.description(rng, rng.choice([1, 2, 3]), allow_body_scalar=False)
        try:
            line, impl = og_case(desc)
            lines.append(line)
            expect.append(impl)
            meta.append(desc)
        except Exception as e:  # noqa
            hist["og_skipped"] = hist.get("og_skipped", 0) + 1
        txt = json.dumps(desc, sort_keys=True)
        ck.count(txt, '"parameters": [{' in txt)
        hist["operations"] += len(desc["paths"])
        hist["with_body"] += txt.count("requestBody")
        hist["parameters"] += txt.count('"in":')
        for sig, what, opid in oracle(desc) + [x for x in oracle(desc, shared) if x[0] != "generate-all-raises"]:
            small = desc
            if len(ck.violations) < 2:
                small = shrink(desc, lambda c: any(s == sig for s, _, _ in oracle(c)))
            ck.violation(sig, what, {"stream": "O", "description": small, "operation": opid})
            ck.cov["traces_validated_against_impl"] += 1
    model = run_driver(lines)
    hist["og_cases"] = len(lines)
    hist["og_requests"] = sum(e.count(":1:") + e.count(":0:") for e in expect)
    hist["og_bare_operations"] = sum(e.count("ok:|entries=") for e in expect)
    for m, e, desc in zip(model, expect, meta):
        ck.cov["traces_validated_against_impl"] += 1
        if m != e:
            ck.cov["disagreements_checked"] += 1
            # the theorems of Properties/C10.v speak about the model's graph: look for a request of the implementation
            # whose label contradicts its parts before giving up
            found = [x for x in oracle(desc) if x[0] != "generate-all-raises"]
            if found:
                sig, what, opid = found[0]
                ck.violation(sig, what, {"stream": "O", "description": desc, "operation": opid})
            else:
                ck.violation("correspondence-OG", "request graph model (coq/OpenApiGraph.v) and generate_all disagree",
                             {"stream": "OG", "description": desc, "impl": e[:2000], "model": m[:2000],
                              "theorem": "correspondence stream OG (C10_label, C10_label_conforms, C10_cover rest on it)"},
                             found_input=False)
    ck.sample({"paths": list(oagen.description(random.Random(2), 2)["paths"].keys())})
    ck.cov["rule"] = ("random OpenAPI descriptions (1-3 operations; path/query/header/cookie parameters over scalar conjunctive schemas, some behind $ref into components "
                      "with sibling keywords, style simple/form, required/optional; optional/required JSON bodies with conjunctive object schemas); every request of "
                      "generate_all judged part by part with jsonschema, and every operation's plan, generated entries, labels and applied options compared with the extracted model "
                      "(stream OG); distinct = description, non-trivial = has parameters")
    ck.notes["input_distribution"] = hist
    ck.assumptions = ["a null body cannot be told from an omitted one", "judge of the parts: jsonschema Draft202012Validator on the raw sample of each applied leaf"]
    return ck.finish(level="proof",
                     trusted=["models: coq/OpenApi.v (plan of generate_all, stream O), coq/OpenApiGraph.v (request graph, stream OG); node ids, make_path and the serialisation of values are not modelled",
                              "hypothesis of C10_label_conforms: the JSON pipeline labels its samples correctly (judged per request by jsonschema here; C01 / C02)"],
                     explanation="C10_label / C10_label_conforms / C10_cover (coq/Properties/C10.v) hold for every plan; streams O and OG tie plan, graph, entries, labels and the option each path applies "
                                 "per group to generate.py; the part-by-part oracle (jsonschema as judge of every carried value, method, placeholders, required parts) runs on the implementation alone")


def replay(pid, path):
    d = json.load(open(path))
    if d.get("stream") == "OG":
        line, impl = og_case(d["description"])
        m = run_driver([line])[0]
        if m != impl:
            print("replayed: request graph model and generate_all disagree\n impl : %s\n model: %s" % (impl[:600], m[:600]))
            return 1
        return 0
    res = oracle(d["description"])
    for sig, what, _ in res:
        print("replayed: %s [%s]" % (what, sig))
    return 1 if res else 0

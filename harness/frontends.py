"""Graphs produced by the five front ends for inputs of their supported dialects (used by C05 and C14)."""
import random, copy, json
from xml.etree import ElementTree as ET
import fences_env

fences_env.load()
from fences.core import node as N  # noqa: E402
from fences.core.debug import check_consistency  # noqa: E402
import regexes as R, grammars as GM, c01, xsds as X, oagen  # noqa: E402


def graphs(rng, n):
    """yields (front end, description of the input, root node)"""
    from fences import parse_regex, parse_grammar, parse_json_schema, parse_xml_schema
    from fences.open_api.open_api import OpenApi
    from fences.open_api import generate as G
    import jsonschemas as J
    for i in range(n):
        k = i % 5
        try:
            if k == 0:
                a = R.gen_regex(rng, rng.choice([1, 2, 3]))
                if not R.supported(a):
                    continue
                yield "regex", R.pr_regex(a), parse_regex(R.pr_regex(a))
            elif k == 1:
                g, s = GM.gen_grammar(rng)
                if not (GM.names_defined(g) and GM.productive(g)):
                    continue
                yield "grammar", json.dumps(g), parse_grammar(GM.to_fences(g), "n%d" % s)
            elif k == 2:
                d = c01.gen_doc(rng)
                if not (isinstance(d, bool) or J.metaschema_ok(d)):
                    continue
                yield "json", json.dumps(d), parse_json_schema(copy.deepcopy(d))
            elif k == 3:
                s = X.gen_schema(rng)
                yield "xml", X.to_xsd(s)[:300], parse_xml_schema(ET.fromstring(X.to_xsd(s)))
            else:
                desc = oagen.description(rng, 2, allow_body_scalar=False)
                api = OpenApi.from_dict(copy.deepcopy(desc))
                cache = G.SampleCache()
                for op in api.operations.values():
                    yield "openapi", op.operation_id + " of " + json.dumps(desc)[:300], G.generate_all(op, cache)
        except RecursionError:
            continue
        except Exception:  # noqa
            continue


def record(root):
    """wrap apply() of every node so that executions can be traced; returns (trace list, leaves)"""
    trace = []
    its = list(root.items())
    for n in its:
        if getattr(n, "_verif_wrapped", False):
            continue
        orig = n.apply

        def wrapped(data, n=n, orig=orig):
            trace.append(n)
            return orig(data)
        n.apply = wrapped
        n._verif_wrapped = True
    return trace, [n for n in its if isinstance(n, N.Leaf)]


def closure_problems(front, root):
    """C14 on one parser output: no Reference reachable, links recorded on both ends, unique ids (not for OpenAPI)"""
    probs = []
    its = list(root.items())
    if any(isinstance(n, N.Reference) for n in its):
        probs.append(("unresolved-reference", "a Reference node is reachable in the returned graph"))
    reach = set(id(n) for n in its)
    for n in its:
        for i in n.incoming_transitions:
            src = i.source
            if not isinstance(src, N.Decision) or i.outgoing_idx >= len(src.outgoing_transitions) or src.outgoing_transitions[i.outgoing_idx].target is not n:
                if id(src) in reach:
                    probs.append(("wrong-incoming-record", "an incoming record (source, index) does not match the source's outgoing transition"))
                    break
        if isinstance(n, N.Decision):
            for idx, t in enumerate(n.outgoing_transitions):
                if not any(r.source is n and r.outgoing_idx == idx for r in t.target.incoming_transitions):
                    probs.append(("missing-incoming-record", "a child does not record its parent with the right index"))
                    break
    if front != "openapi":
        ids = [n.id for n in its if n.id is not None]
        if len(ids) != len(set(ids)):
            probs.append(("duplicate-id", "node ids are not unique"))
        try:
            check_consistency(root)
        except Exception as e:  # noqa
            probs.append(("check-consistency", "check_consistency: %s" % e))
    return probs

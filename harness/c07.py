"""C07: XML Schema -- valid documents validate, invalid documents do not (xmlschema as the judge)."""
import random, json, copy, sys, io
from xml.etree import ElementTree as ET
import fences_env
from common import Check, run_driver
import xsds as X, regexes as R, graphs

fences_env.load()
import xmlschema  # noqa: E402
from fences.core.exception import FencesException  # noqa: E402


class ForcedRandint:
    """every random number drawn at parse time is forced to the low end, the high end, or left random"""

    def __init__(self, mode, rng):
        self.mode, self.rng, self.draws = mode, rng, []

    def __call__(self, a, b):
        v = a if self.mode == "lo" else b if self.mode == "hi" else self.rng.randint(a, b)
        self.draws.append((a, b, v))
        return v


def generate(text, mode, rng):
    """[(is_valid, serialized document)], error"""
    import random as pyrandom
    from fences import parse_xml_schema
    forced = ForcedRandint(mode, rng)
    old = pyrandom.randint
    pyrandom.randint = forced
    try:
        g = parse_xml_schema(ET.fromstring(text))
    except Exception as e:  # noqa
        return [], graphs.err_str(e), forced.draws
    finally:
        pyrandom.randint = old
    out = []
    try:
        for e in g.generate_paths():
            tree = g.execute(e.path)
            out.append((e.is_valid, ET.tostring(tree.getroot(), encoding="unicode")))
    except Exception as e:  # noqa
        return out, graphs.err_str(e), forced.draws
    return out, None, forced.draws


# ---------------------------------------------------------------------------------------------
# correspondence with the Coq model (coq/Xml.v): the schema as an element tree, the numbers the implementation drew
def xml_tokens(el):
    tag = el.tag.rpartition("}")[2]
    toks = [R.tok(tag), str(len(el.attrib))]
    for k, v in el.attrib.items():
        toks += [R.tok(k), R.tok(v)]
    kids = list(el)
    toks.append(str(len(kids)))
    for c in kids:
        toks += xml_tokens(c)
    return toks


def xml_payload(n):
    from fences.xml_schema import parse as XP
    if isinstance(n, XP.StartNode):
        return "S"
    if isinstance(n, XP.FetchOutput):
        return "F" + (R.tok(n.namespace) if n.namespace else "-")
    if isinstance(n, XP.StartAttribute):
        return "A" + R.tok(n.attr)
    if isinstance(n, XP.StartNewElement):
        return "E" + R.tok(n.tag)
    if isinstance(n, XP.SetValueLeaf):
        return "=" + R.tok(n.value)
    return "-"


def doc_tokens(el):
    toks = [R.tok(el.tag), str(len(el.attrib))]
    for k, v in el.attrib.items():
        toks += [R.tok(k), R.tok(v)]
    toks.append("T" + R.tok(el.text) if el.text is not None else "-")
    kids = list(el)
    toks.append(str(len(kids)))
    for c in kids:
        toks += doc_tokens(c)
    return toks


def observe_xsd(text, mode, rng):
    """(what the implementation does, the numbers it drew)"""
    import random as pyrandom
    from fences import parse_xml_schema
    forced = ForcedRandint(mode, rng)
    old = pyrandom.randint
    pyrandom.randint = forced
    try:
        g = parse_xml_schema(ET.fromstring(text))
    except Exception as e:  # noqa
        return "parse=" + graphs.err_str(e), [v for _, _, v in forced.draws]
    finally:
        pyrandom.randint = old
    dump, num = R.dump_canon(g, xml_payload)
    entries, status = [], "ok:"
    try:
        for e in g.generate_paths():
            entries.append(e)
    except Exception as ex:  # noqa
        status = graphs.err_str(ex)
    out = "graph=" + dump + "|entries=" + ";".join("%d/%s/%d" % (num.get(id(e.target), -1), graphs.ints(e.path), int(e.is_valid)) for e in entries) + "|status=" + status
    samples = []
    for e in entries:
        try:
            samples.append("ok:" + " ".join(doc_tokens(g.execute(e.path).getroot())))
        except Exception as ex:  # noqa
            samples.append(graphs.err_str(ex))
    return out + "|samples=" + ";".join(samples), [v for _, _, v in forced.draws]


def correspondence(ck, texts, rng, hist):
    lines, impls = [], []
    for text in texts:
        mode = rng.choice(["lo", "hi", "rnd"])
        impl, draws = observe_xsd(text, mode, rng)
        toks = ["X", "1", "1", "1", "600", str(len(draws))] + [str(v) for v in draws] + xml_tokens(ET.fromstring(text))
        lines.append(" ".join(toks))
        impls.append(impl)
    model = run_driver(lines) if lines else []
    for text, impl, m in zip(texts, impls, model):
        ck.cov["traces_validated_against_impl"] += 1
        hist["model_runs"] = hist.get("model_runs", 0) + 1
        hist["library_exception"] = hist.get("library_exception", 0) + impl.startswith("parse=lib")
        if impl != m:
            ck.cov["disagreements_checked"] += 1
            if ck.cov["disagreements_checked"] <= 3:
                ck.violation("correspondence-X", "model (coq/Xml.v) and xml_schema/parse.py disagree", {"stream": "X", "xsd": text, "impl": impl[:700], "model": m[:700],
                             "theorem": "correspondence stream X"}, found_input=False)


def oracle(schema, rng, modes=("lo", "hi", "rnd")):
    text = X.to_xsd(schema)
    try:
        xs = xmlschema.XMLSchema(text)
    except Exception:  # noqa
        return None                         # not an XSD a conforming processor accepts: outside the quantifier
    res = []
    emptiable = X.has_emptiable_choice_branch(schema)
    for mode in modes:
        docs, err, draws = generate(text, mode, rng)
        if err is not None and not err.startswith("lib:"):
            res.append(("xsd-raises:" + err, "parse/generate raises %s on an XSD of the supported subset" % err, None))
            return res
        if err is not None:
            return res
        for valid, doc in docs:
            try:
                ok = xs.is_valid(ET.fromstring(doc))
            except Exception:  # noqa
                ok = False
            if valid and not ok:
                why = ""
                try:
                    xs.validate(ET.fromstring(doc))
                except Exception as e:  # noqa
                    why = str(getattr(e, "reason", e))[:120]
                res.append(("valid-document-rejected", "document %s is labelled valid but does not validate (%s; random draws %s)" % (doc[:200], why, mode), doc))
                return res
            if not valid and ok and not emptiable:
                res.append(("invalid-document-accepted", "document %s is labelled invalid but validates (random draws %s)" % (doc[:200], mode), doc))
                return res
    return res


def shrink(schema, bad):
    """drop elements / attributes / types while the predicate persists"""
    changed = True
    while changed:
        changed = False
        cands = []

        def variants(s):
            for i in range(len(s["types"])):
                c = copy.deepcopy(s)
                del c["types"][i]
                yield c
            def models(t, path):
                pass
            # drop particles / attributes anywhere (by index walk)
            def walk(node, setter):
                if isinstance(node, tuple):
                    if node[0] in ("complex",):
                        m, attrs = node[1], node[2]
                        if m is not None:
                            for i in range(len(m[1])):
                                if len(m[1]) > 1:
                                    yield setter(("complex", (m[0], m[1][:i] + m[1][i + 1:]), attrs))
                            for i, el in enumerate(m[1]):
                                if el["inline"]:
                                    for v in walk(el["inline"], lambda nv, i=i: setter(("complex", (m[0], m[1][:i] + [dict(m[1][i], inline=nv)] + m[1][i + 1:]), attrs))):
                                        yield v
                                if el["min"] is not None or el["max"] is not None:
                                    yield setter(("complex", (m[0], m[1][:i] + [dict(el, min=None, max=None)] + m[1][i + 1:]), attrs))
                        for i in range(len(attrs)):
                            yield setter(("complex", m, attrs[:i] + attrs[i + 1:]))
            root = s["root"]
            if root["inline"]:
                for v in walk(root["inline"], lambda nv: dict(s, root=dict(root, inline=nv))):
                    yield v
            for ti, (name, t) in enumerate(s["types"]):
                for v in walk(t, lambda nv, ti=ti, name=name: dict(s, types=s["types"][:ti] + [(name, nv)] + s["types"][ti + 1:])):
                    yield v
        for c in variants(schema):
            try:
                if bad(c):
                    schema = c
                    changed = True
                    break
            except Exception:  # noqa
                pass
    return schema


def run(pid, tier):
    ck = Check(pid, tier)
    if not ck.coq():
        ck.violation("coq-obligation", "coq/Properties/C07.v no longer checks: %s" % ck.obl["log"][-300:],
                     {"theorem": ck.obl["file"]}, found_input=False)
    rng = random.Random(ck.seed * 463 + 3)
    n = 120 if tier == "quick" else 2500
    hist = {"accepted_by_xmlschema": 0, "documents": 0, "valid_documents": 0, "with_occurs": 0, "with_attributes": 0, "emptiable_choice": 0}
    sys.setrecursionlimit(2500)
    tried = 0
    texts = []
    while hist["accepted_by_xmlschema"] < n and tried < n * 6:
        tried += 1
        s = X.gen_schema(rng)
        text = X.to_xsd(s)
        texts.append(text)
        r = oracle(s, rng)
        if r is None:
            continue
        hist["accepted_by_xmlschema"] += 1
        ck.count(text, len(text) > 200)
        hist["with_occurs"] += "Occurs" in text
        hist["with_attributes"] += "xs:attribute" in text
        hist["emptiable_choice"] += X.has_emptiable_choice_branch(s)
        docs, err, _ = generate(text, "rnd", rng)
        hist["documents"] += len(docs)
        hist["valid_documents"] += sum(1 for v, _ in docs if v)
        ck.cov["traces_validated_against_impl"] += len(docs)
        for sig, what, doc in r:
            small = s
            if len(ck.violations) < 3:
                base = sig.split(":")[0]
                small = shrink(s, lambda c: any(x[0].split(":")[0] == base for x in (oracle(c, random.Random(1)) or [])))
                got = [x for x in (oracle(small, random.Random(1)) or []) if x[0].split(":")[0] == base]
                if got:
                    sig, what, doc = got[0]
            ck.violation(sig + ":" + classify(small), what, {"stream": "X", "xsd": X.to_xsd(small), "ast": small, "document": doc})
    correspondence(ck, texts, random.Random(ck.seed + 17), hist)
    ck.sample({"xsd": X.to_xsd(X.gen_schema(random.Random(1)))[:600]})
    ck.cov["rule"] = ("random XSDs of the C07 subset (global root element, named/anonymous complexTypes with sequence/choice/all, local elements of built-in or named "
                      "types, minOccurs/maxOccurs in {0,1,n,unbounded}, optional/required/fixed attributes, simpleType restrictions by enumeration or min/maxLength, "
                      "simpleContent/complexContent extension) that xmlschema accepts; numeric draws forced to the low end, the high end and random; "
                      "distinct = XSD text, non-trivial = text > 200 chars")
    ck.notes["input_distribution"] = hist
    ck.assumptions = ["judge: xmlschema 4.x (XMLSchema10)", "xs:all is read in declaration order (one of the orders it admits)"]
    return ck.finish(level="other", trusted=["xmlschema as conforming validator", "model of xml_schema/parse.py + xpath.py: coq/Xml.v (tied by stream X)"],
                     explanation="correspondence of the executable Coq model of xml_schema/parse.py (coq/Xml.v) with the implementation on random schemas (graph, entries, labels, documents) plus oracle on the implementation with xmlschema as judge")


def classify(s):
    text = X.to_xsd(s)
    tags = [k for k in ("minOccurs", "maxOccurs", "xs:choice", "xs:all", "fixed", "use=\"required\"", "xs:enumeration", "xs:minLength", "xs:maxLength",
                        "simpleContent", "complexContent") if k in text]
    types = sorted(set(t for t in X.BUILTINS if ('"%s"' % t) in text))
    return "+".join(tags + types)[:160]


def replay(pid, path):
    d = json.load(open(path))
    print("replay needs the AST; re-running the oracle on it")
    res = oracle(d["ast"], random.Random(1)) or []
    for sig, what, _ in res:
        print("replayed: %s [%s]" % (what, sig))
    return 1 if res else 0

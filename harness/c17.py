"""C17: what fences does not understand is rejected with its own exception.
Mutation-style generator: a supported input in which one construct is replaced by (or extended with) a legal
construct of the schema language outside the supported dialect.  Oracle: the parser returns, or raises an
exception derived from FencesException; listed must-reject constructs are not silently accepted."""
import random, json, copy, re, sys
from xml.etree import ElementTree as ET
import fences_env
from common import Check
import jsonschemas as J, c01, regexes as R, grammars as GM, xsds as X, oagen, graphs

fences_env.load()
from fences.core.exception import FencesException  # noqa: E402


def outcome(fn):
    try:
        fn()
        return "ok"
    except FencesException as e:
        return "lib:" + type(e).__name__
    except RecursionError:
        return "py:RecursionError"
    except Exception as e:  # noqa
        return "py:" + type(e).__name__


# ---------------------------------------------------------------------------------------------
JSON_MUTATIONS = [
    ("unknown-format", lambda rng: {"type": "string", "format": rng.choice(["frobnicate", "regex", "uri", "idn-email", "json-pointer"])}, True),
    ("known-format", lambda rng: {"type": "string", "format": rng.choice(["date", "email", "uuid", "ipv4"])}, False),
    ("remote-ref", lambda rng: {"$ref": rng.choice(["http://example.com/s.json", "other.json#/x", "urn:x:y", "defs.json"])}, True),
    ("remote-ref-local-fragment", lambda rng: {"$ref": rng.choice(["https://example.com/common.json#/$defs/a", "definitions.json#/$defs/a"]), "$defs": {"a": {"type": "string"}}}, True),
    ("float-spelled-min-items", lambda rng: {"type": "array", "minItems": 1.0}, False),
    ("float-spelled-min-length", lambda rng: {"type": "string", "minLength": 0.0, "maxLength": 2.0}, False),
    ("float-spelled-min-contains", lambda rng: {"type": "array", "contains": {"type": "number"}, "minContains": 1.0}, False),
    ("dangling-ref", lambda rng: {"$ref": "#/$defs/doesNotExist"}, True),
    ("anchor-ref", lambda rng: {"$ref": "#anchor"}, True),
    ("unmergeable-exclusive", lambda rng: {"allOf": [{"exclusiveMinimum": 1}, {"exclusiveMinimum": 2}]}, True),
    ("unmergeable-additional", lambda rng: {"allOf": [{"additionalProperties": {"type": "string"}}, {"additionalProperties": {"minLength": 1}}]}, True),
    ("unmergeable-contains", lambda rng: {"allOf": [{"contains": {"type": "string"}}, {"contains": {"type": "number"}}]}, True),
    ("not-additional", lambda rng: {"not": {"additionalProperties": False}}, True),
    ("not-contains", lambda rng: {"not": {"contains": {"type": "number"}}}, True),
    ("not-unique", lambda rng: {"not": {"uniqueItems": True}}, True),
    # a keyword without inverter after one whose inversion is the empty schema (format), in either order, also below oneOf
    ("not-format-then-uninvertible", lambda rng: {"not": dict([("format", "email"), rng.choice([("uniqueItems", True), ("minProperties", 1), ("contentMediaType", "text/plain")])])}, True),
    ("not-uninvertible-then-format", lambda rng: {"not": dict([rng.choice([("uniqueItems", True), ("minProperties", 1)]), ("format", "email")])}, True),
    ("one-of-format-then-uninvertible", lambda rng: {"oneOf": [{"format": "date", "minProperties": 1}, {"type": "null"}]}, True),
    ("contradictory-length", lambda rng: {"type": "string", "minLength": 3, "maxLength": 1}, True),
    # the length check of parse_string stands in front of the format dispatch: bounds no string can meet are refused whatever the format
    ("contradictory-length-format", lambda rng: {"type": "string", "format": rng.choice(["date", "email", "uuid", "ipv4"]), "minLength": rng.choice([3, 10, 50]), "maxLength": rng.choice([0, 1, 2])}, True),
    ("contradictory-bounds", lambda rng: {"type": "number", "minimum": 5, "maximum": 1}, False),
    ("contradictory-items", lambda rng: {"type": "array", "minItems": 3, "maxItems": 1}, False),
    ("enum-array-member", lambda rng: {"enum": [[1, 2], "x"]}, False),
    ("enum-object-member", lambda rng: {"enum": [{"a": 1}]}, False),
    ("const-object", lambda rng: {"const": {"a": [1]}}, False),
    ("allof-enum-array", lambda rng: {"allOf": [{"enum": [[1], 2]}, {"enum": [[1]]}]}, False),
    ("pattern-properties", lambda rng: {"type": "object", "patternProperties": {"^x": {"type": "string"}}}, False),
    ("property-names", lambda rng: {"type": "object", "propertyNames": {"maxLength": 3}}, False),
    ("unique-items", lambda rng: {"type": "array", "uniqueItems": True}, False),
    ("min-properties", lambda rng: {"type": "object", "minProperties": 1, "maxProperties": 2}, False),
    ("dependent-schemas", lambda rng: {"dependentSchemas": {"a": {"required": ["b"]}}}, False),
    ("unevaluated", lambda rng: {"unevaluatedProperties": False}, False),
    ("float-bounds", lambda rng: {"type": "integer", "minimum": 1.5, "maximum": 7.25}, False),
    ("float-multiple", lambda rng: {"type": "number", "multipleOf": 0.5, "minimum": 0.2}, False),
    ("pattern", lambda rng: {"type": "string", "pattern": rng.choice(["^a+$", "[0-9]{3}", "(?i)x", "a|b"])}, False),
    ("content", lambda rng: {"type": "string", "contentEncoding": "base64", "contentMediaType": "image/png"}, False),
    ("anchor", lambda rng: {"$anchor": "here", "type": "string"}, False),
    ("dynamic-ref", lambda rng: {"$dynamicRef": "#node"}, False),
    ("items-false", lambda rng: {"type": "array", "prefixItems": [{"type": "string"}], "items": False}, False),
    ("min-contains-0", lambda rng: {"type": "array", "contains": {"type": "string"}, "minContains": 0, "maxContains": 2}, False),
    ("type-empty-intersection", lambda rng: {"type": "string", "allOf": [{"type": "number"}]}, False),
    ("if-only", lambda rng: {"if": {"type": "string"}, "minimum": 3}, False),
    ("oneof-many", lambda rng: {"oneOf": [{"type": "string"}, {"minimum": 3}, {"maxLength": 2}]}, False),
    ("not-properties-many", lambda rng: {"not": {"properties": {"a": {"type": "string"}, "b": {"type": "number"}}, "required": ["a"]}}, False),
    ("const-null", lambda rng: {"const": None}, False),
    ("multiple-of-zero-bound", lambda rng: {"type": "number", "minimum": 0, "multipleOf": 7}, False),
    ("boolean-subschemas", lambda rng: {"properties": {"a": True, "b": False}, "items": True}, False),
    ("defs-unused-weird", lambda rng: {"$defs": {"x": {"format": "frobnicate"}}, "type": "string"}, False),
    ("comment-keywords", lambda rng: {"$comment": "c", "title": "t", "examples": [1], "default": 3, "type": "number"}, False),
    ("required-undeclared", lambda rng: {"type": "object", "required": ["zz", "yy"]}, False),
    ("nested-ref-siblings", lambda rng: {"properties": {"a": {"$ref": "#", "minLength": 1}}}, False),
    ("exclusive-both", lambda rng: {"type": "number", "exclusiveMinimum": 0, "exclusiveMaximum": 10, "minimum": 1}, False),
]


def mutate_json(rng, doc, mut):
    """plant the construct at a random schema position of doc (or use it alone)"""
    frag = mut(rng)
    if not isinstance(doc, dict) or rng.random() < 0.3:
        return frag
    d = copy.deepcopy(doc)
    spots = []

    def walk(s):
        if isinstance(s, dict):
            spots.append(s)
            for k in ("properties",):
                for v in (s.get(k) or {}).values():
                    walk(v)
            for k in ("items", "contains", "not", "if", "then", "else"):
                if isinstance(s.get(k), dict):
                    walk(s[k])
            for k in ("allOf", "anyOf", "oneOf", "prefixItems"):
                for v in s.get(k) or []:
                    walk(v)
    walk(d)
    spot = rng.choice(spots)
    m = rng.random()
    if m < 0.4:
        spot.setdefault("properties", {})["mut"] = frag
    elif m < 0.7:
        spot.setdefault("allOf", []).append(frag)
    else:
        for k, v in frag.items():
            spot.setdefault(k, v)
    return d


TYOK = {"normal_forms": 0, "type_values_hashable": 0}


def tyok(j):
    """the hypothesis of C17_json_generator_own (coq/JsonErr.v, tyokb): every "type" value is a scalar or a list of scalars"""
    scalar = lambda x: not isinstance(x, (list, dict))
    if isinstance(j, dict):
        t = j.get("type")
        if "type" in j and not (scalar(t) or (isinstance(t, list) and all(scalar(x) for x in t))):
            return False
        return all(tyok(v) for v in j.values())
    if isinstance(j, list):
        return all(tyok(v) for v in j)
    return True


def check_json(doc):
    from fences import parse_json_schema
    from fences.json_schema.normalize import normalize
    if not (isinstance(doc, bool) or J.metaschema_ok(doc)):
        return None
    try:
        nf = normalize(copy.deepcopy(doc))
        TYOK["normal_forms"] += 1
        TYOK["type_values_hashable"] += tyok(nf)
    except BaseException:  # noqa
        pass
    o1 = outcome(lambda: normalize(copy.deepcopy(doc)))
    o2 = outcome(lambda: parse_json_schema(copy.deepcopy(doc)))
    return o1, o2


# ---------------------------------------------------------------------------------------------
REGEXES = ["a(?=b)", "(?P<n>a)(?P=n)", "(a)\\1", "a+?", "a*+", "(?i)abc", "\\s+", "\\.", "a.c", "^abc$", "[^abc]", "\\bword\\b", "\\d{2,3}", "[\\w-]+",
           "a{2,1}", "[z-a]", "(?:a|b)*c", "\\u0041", "\\x41", "a{,3}", "(a|)", "()", "[]a]", "a||b", "(?#c)a", "\\p{L}", "a{3}{2}", "\\A", "x*?y",
           "[a-c-e]", "a{1,2}{3}", "(?<=a)b", "\\\\", "a\\{2\\}", "[[:alpha:]]", "é+", "\\t", "a|*", "+a", "a**", "(", "[a", "a)"]


def check_regex(pat):
    from fences import parse_regex
    try:
        re.compile(pat)
    except re.error:
        return None
    except Exception:  # noqa
        return None
    return outcome(lambda: parse_regex(pat))


# ---------------------------------------------------------------------------------------------
def xsd_mutations(rng, text):
    """legal XSD constructs outside the supported subset, inserted textually"""
    outs = []
    if ' minOccurs="' not in text or ' maxOccurs="' not in text:
        # the plantings next to occurrence bounds need a particle that has them: give the first local element both
        text = re.sub(r'(<xs:element name="(?!root")[^"]*")(?![^>]*Occurs=)', r'\1 minOccurs="1" maxOccurs="2"', text, count=1)
    outs.append(("attr-nillable", text.replace('<xs:element name="root"', '<xs:element name="root" nillable="true"', 1), True))
    outs.append(("attr-id", text.replace('<xs:element name="root"', '<xs:element name="root" id="i1"', 1), True))
    # the same kind of attribute on a particle that also carries occurrence bounds (a different exit of parse_xml_element)
    outs.append(("attr-nillable-with-occurs", text.replace(' minOccurs="', ' nillable="true" minOccurs="', 1), True))
    outs.append(("attr-id-with-max-occurs", text.replace(' maxOccurs="', ' id="i2" maxOccurs="', 1), True))
    outs.append(("attr-block-with-occurs", re.sub(r'(<xs:element [^>]*?)( m(?:in|ax)Occurs=")', r'\1 block="extension"\2', text, count=1), True))
    outs.append(("attr-mixed", text.replace("<xs:complexType>", '<xs:complexType mixed="true">', 1), True))
    outs.append(("attr-abstract", text.replace("<xs:complexType name=", '<xs:complexType abstract="false" name=', 1), True))
    outs.append(("any-attribute", text.replace("</xs:complexType>", "<xs:anyAttribute /></xs:complexType>", 1), True))
    outs.append(("annotation", text.replace("<xs:complexType>", "<xs:complexType><xs:annotation><xs:documentation>d</xs:documentation></xs:annotation>", 1), False))
    outs.append(("group", text.replace("</xs:schema>", '<xs:group name="g1"><xs:sequence><xs:element name="ge" type="xs:string" /></xs:sequence></xs:group></xs:schema>'), True))
    outs.append(("attribute-group", text.replace("</xs:schema>", '<xs:attributeGroup name="ag"><xs:attribute name="x" type="xs:string" /></xs:attributeGroup></xs:schema>'), True))
    outs.append(("list-type", text.replace("</xs:schema>", '<xs:simpleType name="lt"><xs:list itemType="xs:integer" /></xs:simpleType></xs:schema>'), True))
    outs.append(("union-type", text.replace("</xs:schema>", '<xs:simpleType name="ut"><xs:union memberTypes="xs:integer xs:string" /></xs:simpleType></xs:schema>'), True))
    outs.append(("unknown-builtin", text.replace('type="xs:string"', 'type="xs:anyURI"', 1), False))
    outs.append(("facet-pattern", text.replace("</xs:schema>", '<xs:simpleType name="pt"><xs:restriction base="xs:string"><xs:pattern value="[a-z]+" /></xs:restriction></xs:simpleType></xs:schema>'), False))
    outs.append(("enumeration-then-other-facet", text.replace("</xs:schema>", '<xs:simpleType name="ef"><xs:restriction base="xs:string"><xs:enumeration value="red" /><xs:enumeration value="green" /><xs:maxLength value="5" /></xs:restriction></xs:simpleType></xs:schema>'), True))
    outs.append(("facet-range", text.replace("</xs:schema>", '<xs:simpleType name="rt"><xs:restriction base="xs:integer"><xs:minInclusive value="3" /></xs:restriction></xs:simpleType></xs:schema>'), True))
    outs.append(("facet-length-int", text.replace("</xs:schema>", '<xs:simpleType name="rl"><xs:restriction base="xs:token"><xs:length value="3" /></xs:restriction></xs:simpleType></xs:schema>'), True))
    outs.append(("default-attr", text.replace('<xs:attribute name="at', '<xs:attribute default="d" name="at', 1), False))
    outs.append(("element-default", text.replace('<xs:element name="root"', '<xs:element name="root" default="x"', 1), True))
    outs.append(("min-occurs-2", text.replace('<xs:element name="e0"', '<xs:element minOccurs="2" maxOccurs="4" name="e0x"', 1), False))
    outs.append(("target-namespace", text.replace("<xs:schema ", '<xs:schema targetNamespace="urn:t" elementFormDefault="qualified" ', 1), False))
    outs.append(("second-global-element", text.replace("</xs:schema>", '<xs:element name="other" type="xs:string" /></xs:schema>'), False))
    outs.append(("element-ref", text.replace("</xs:sequence>", '<xs:element ref="root" minOccurs="0" /></xs:sequence>', 1), True))
    outs.append(("unique", text.replace('</xs:complexType></xs:element>', '</xs:complexType><xs:unique name="u"><xs:selector xpath="*" /><xs:field xpath="@id" /></xs:unique></xs:element>', 1), True))
    outs.append(("any", text.replace("</xs:sequence>", '<xs:any minOccurs="0" processContents="lax" /></xs:sequence>', 1), False))
    outs.append(("simple-restriction-of-restriction", text.replace("</xs:schema>", '<xs:simpleType name="r2"><xs:restriction><xs:simpleType><xs:restriction base="xs:string"><xs:maxLength value="4" /></xs:restriction></xs:simpleType><xs:minLength value="1" /></xs:restriction></xs:simpleType></xs:schema>'), True))
    return [(n, t, must) for n, t, must in outs if t != text]


def check_xsd(text):
    import xmlschema
    from fences import parse_xml_schema
    try:
        xmlschema.XMLSchema(text)
    except Exception:  # noqa
        return None
    return outcome(lambda: parse_xml_schema(ET.fromstring(text)))


# ---------------------------------------------------------------------------------------------
def grammar_cases(rng):
    from fences.grammar.types import NonTerminal, Terminal, Concatenation, Alternative, CharacterRange, Repetition
    S = NonTerminal("s")
    yield "unknown-int", {S: 5}, True
    yield "unknown-none", {S: Concatenation([Terminal("a"), None])}, True
    yield "unknown-set", {S: Alternative([Terminal("a"), {1, 2}])}, True
    yield "unknown-tuple", {S: ("a", "b")}, True
    yield "unknown-nested", {S: Repetition(3.5, 0, 2)}, True
    yield "undefined-nonterminal", {S: NonTerminal("missing")}, True
    yield "duplicate-rule-name", {S: Terminal("a"), NonTerminal("s"): Terminal("b")}, True
    yield "empty-alternative", {S: Alternative([])}, False
    yield "empty-concatenation", {S: Concatenation([])}, False
    yield "string-shorthand", {S: Concatenation(["a", ["b", "c"]])}, False
    yield "open-range", {S: CharacterRange(None, None)}, False
    yield "rep-reversed", {S: Repetition(Terminal("a"), 3, 1)}, False
    yield "rep-zero", {S: Repetition(Terminal("a"), 0, 0)}, False
    yield "self-only", {S: NonTerminal("s")}, False
    yield "start-missing", {NonTerminal("other"): Terminal("a")}, True


def check_grammar(g):
    from fences import parse_grammar
    return outcome(lambda: parse_grammar(g, "s"))


# ---------------------------------------------------------------------------------------------
def openapi_cases(rng):
    base = oagen.description(rng, 2, allow_body_scalar=False)

    def variant(name, f, must):
        d = copy.deepcopy(base)
        try:
            f(d)
        except Exception:  # noqa
            return None
        return name, d, must
    first = lambda d: next(iter(next(iter(d["paths"].values())).values()))
    yield variant("parameters-not-list", lambda d: first(d).__setitem__("parameters", {"a": 1}), True)
    yield variant("responses-missing", lambda d: first(d).pop("responses"), True)
    yield variant("operation-id-missing", lambda d: first(d).pop("operationId"), True)
    yield variant("info-not-dict", lambda d: d.__setitem__("info", "t"), True)
    yield variant("schema-not-dict", lambda d: first(d)["parameters"].append({"name": "z", "in": "query", "schema": True}), True)
    yield variant("param-without-schema", lambda d: first(d)["parameters"].append({"name": "z", "in": "query", "content": {"application/json": {"schema": {}}}}), True)
    yield variant("style-matrix", lambda d: first(d)["parameters"].append({"name": "z", "in": "path", "style": "matrix", "schema": {"type": "string"}}), True)
    yield variant("style-deep-object", lambda d: first(d)["parameters"].append({"name": "z", "in": "query", "style": "deepObject", "schema": {"type": "object"}}), True)
    yield variant("required-not-bool", lambda d: first(d)["parameters"].append({"name": "z", "in": "query", "required": "yes", "schema": {"type": "string"}}), True)
    yield variant("duplicate-parameter", lambda d: first(d)["parameters"].extend([{"name": "dup", "in": "query", "schema": {}}, {"name": "dup", "in": "query", "schema": {}}]), True)
    yield variant("body-xml-only", lambda d: first(d).__setitem__("requestBody", {"content": {"application/xml": {"schema": {"type": "string"}}}}), False)
    yield variant("response-codes", lambda d: first(d).__setitem__("responses", {"200": {"description": "ok"}, "default": {"description": "d"}, "4XX": {"description": "range"}}), False)
    yield variant("path-item-parameters", lambda d: next(iter(d["paths"].values())).__setitem__("parameters", [{"name": "common", "in": "query", "schema": {"type": "string"}}]), False)
    yield variant("path-item-summary", lambda d: next(iter(d["paths"].values())).__setitem__("summary", "text"), False)
    yield variant("tags-not-list", lambda d: first(d).__setitem__("tags", "a"), True)
    yield variant("components-missing", lambda d: d.pop("components"), False)
    yield variant("paths-missing", lambda d: d.pop("paths"), True)


def check_openapi(d):
    from fences.open_api.open_api import OpenApi
    return outcome(lambda: OpenApi.from_dict(copy.deepcopy(d)))


# ---------------------------------------------------------------------------------------------
def run(pid, tier):
    ck = Check(pid, tier)
    if not ck.coq():
        ck.violation("coq-obligation", "coq/Properties/C17.v no longer checks: %s" % ck.obl["log"][-300:],
                     {"theorem": ck.obl["file"]}, found_input=False)
    rng = random.Random(ck.seed * 997 + 23)
    sys.setrecursionlimit(2500)
    hist = {"json": 0, "regex": 0, "xsd": 0, "grammar": 0, "openapi": 0, "library_exception": 0, "accepted": 0}
    xsd_texts = []

    def judge(front, name, inp, out, must_reject, replay):
        hist[front] += 1
        ck.count(front + name + json.dumps(inp, default=str, sort_keys=True)[:2000], True)
        outs = out if isinstance(out, tuple) else (out,)
        for o in outs:
            hist["library_exception"] += o.startswith("lib:")
            hist["accepted"] += o == "ok"
            if o.startswith("py:"):
                ck.violation("internal-error:%s:%s:%s" % (front, name, o[3:]), "%s input with construct '%s' fails with the non-library exception %s" % (front, name, o[3:]), replay)
                return
        if must_reject and all(o == "ok" for o in outs):
            ck.violation("silently-accepted:%s:%s" % (front, name), "%s input with the unsupported construct '%s' is accepted without an exception" % (front, name), replay)

    rounds = 3 if tier == "quick" else 60
    for _ in range(rounds):
        for name, mut, must in JSON_MUTATIONS:
            base = c01.gen_doc(rng)
            doc = mutate_json(rng, base, mut)
            r = check_json(doc)
            if r is None:
                doc = mut(rng)
                r = check_json(doc)
            if r is not None:
                # 'must reject' only when the construct stands alone (planted into a larger document another exception may come first, which is fine)
                judge("json", name, doc, r, False, {"front_end": "json", "construct": name, "schema": doc})
                alone = mut(rng)
                ra = check_json(alone)
                if ra is not None:
                    judge("json", name, alone, ra, must, {"front_end": "json", "construct": name, "schema": alone})
        for pat in REGEXES:
            r = check_regex(pat)
            if r is not None:
                judge("regex", pat, pat, r, False, {"front_end": "regex", "pattern": pat})
        fallback = None
        for _attempt in range(24):                # a base schema the XSD processor accepts (some generated ones are not)
            s = X.gen_schema(rng)                 # and that has local elements and attributes to plant constructs on
            text = X.to_xsd(s)
            if check_xsd(text) is None:
                continue
            fallback = text
            if '<xs:element name="e' in text and "<xs:complexType" in text:
                break
        else:
            text = fallback or text
        for name, t, must in xsd_mutations(rng, text):
            r = check_xsd(t)
            if r is not None:
                judge("xsd", name, t[:3000], r, must, {"front_end": "xsd", "construct": name, "xsd": t})
                if "xs:pattern" not in t:          # string patterns are outside the Coq model of xml_schema/parse.py
                    xsd_texts.append(t)
        for name, g, must in grammar_cases(rng):
            judge("grammar", name, name, check_grammar(g), must, {"front_end": "grammar", "construct": name})
        for v in openapi_cases(rng):
            if v is None:
                continue
            name, d, must = v
            judge("openapi", name, d, check_openapi(d), must, {"front_end": "openapi", "construct": name, "description": d})
    ck.sample({"json_constructs": [m[0] for m in JSON_MUTATIONS][:8]})
    ck.cov["rule"] = ("supported inputs of every front end with one legal construct outside the dialect planted (JSON: %d constructs valid against the Draft 2020-12 metaschema; regex: %d "
                      "patterns that re.compile accepts; XSD: textual insertions accepted by xmlschema; grammar: dictionaries with foreign objects; OpenAPI: wrong field types); "
                      "distinct = (front end, construct, input), every case counts as non-trivial" % (len(JSON_MUTATIONS), len(REGEXES)))
    ck.notes["input_distribution"] = hist
    ck.notes["hypothesis_of_C17_json_generator_own"] = dict(TYOK, meaning="normal forms returned by normalize() for the metaschema-valid documents of "
                                                            "this run, and how many of them meet tyokb (observed, not proved)")
    ck.assumptions = ["well-formedness judges: jsonschema metaschema check, xmlschema.XMLSchema, re.compile", "ill-typed documents are outside the contract"]
    # which exception class escapes is part of what the Coq model of xml_schema/parse.py says: compare on the planted schemas
    import c07
    xh = {}
    c07.correspondence(ck, xsd_texts, random.Random(ck.seed + 5), xh)
    hist["xsd_model_runs"] = xh.get("model_runs", 0)
    return ck.finish(level="other", trusted=["exception class of the implementation is observed directly"],
                     explanation="mutation-style exploration of unsupported constructs; the Coq models return PyErr wherever the code would raise a non-library exception, "
                                 "their error sites are tied by the correspondence streams (error classes are compared)")


def replay(pid, path):
    d = json.load(open(path))
    fe = d["front_end"]
    if fe == "json":
        r = check_json(d["schema"])
    elif fe == "regex":
        r = check_regex(d["pattern"])
    elif fe == "xsd":
        r = check_xsd(d["xsd"])
    elif fe == "openapi":
        r = check_openapi(d["description"])
    else:
        r = None
        for name, g, must in grammar_cases(random.Random(0)):
            if name == d["construct"]:
                r = check_grammar(g)
    print("replayed outcome:", r)
    bad = r is not None and any(o.startswith("py:") for o in (r if isinstance(r, tuple) else (r,)))
    return 1 if bad else 0

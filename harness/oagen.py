"""Random OpenAPI descriptions in the dialect of C10/C18: operations with path/query/header/cookie
parameters over a shared pool of scalar conjunctive schemas (some behind $ref into components),
style simple/form, required/optional, optional/required JSON bodies (conjunctive object schemas)."""
import copy, json, random

SCALARS = [
    {"type": "string"},
    {"type": "string", "minLength": 2, "maxLength": 4},
    {"type": "string", "enum": ["a", "b"]},
    {"type": "number"},
    {"type": "number", "minimum": 1, "maximum": 5},
    {"type": "integer", "minimum": 0},
    {"type": "integer", "maximum": 10, "minimum": 3},
    {"type": "boolean"},
    {"type": "number", "exclusiveMinimum": 0},
    {"enum": ["x", "y", "z"]},
    {"type": "string", "minLength": 1},
    {"type": "integer", "minimum": 1759363200},
    {"type": "number", "minimum": 1234567, "maximum": 1234570},
    {"type": "integer", "maximum": -20000001},
]

# array-valued parameters (C18 only: the dialect of C10 has scalar parameters): the formatted value is computed from the
# very list object the cache holds
ARRAYS = [
    {"type": "array", "items": {"type": "string", "enum": ["red", "green"]}, "minItems": 2},
    {"type": "array", "items": {"type": "integer", "minimum": 1, "maximum": 3}, "minItems": 2},
]

BODIES = [
    {"type": "object", "properties": {"a": {"type": "integer", "minimum": 1}}, "required": ["a"]},
    {"type": "object", "properties": {"n": {"type": "string", "minLength": 1}, "f": {"type": "boolean"}}},
    {"type": "object", "properties": {"l": {"type": "array", "items": {"type": "number", "maximum": 3}}}, "required": ["l"]},
    {"type": "object", "properties": {"o": {"type": "object", "properties": {"k": {"enum": ["p", "q"]}}, "required": ["k"]}}, "required": ["o"]},
    {"type": "object"},
]


def description(rng: random.Random, n_ops=3, allow_body_scalar=True, arrays=False, twins=False):
    pool = [copy.deepcopy(s) for s in rng.sample(SCALARS, 4)]
    if arrays and rng.random() < 0.5:
        pool[rng.randrange(4)] = copy.deepcopy(rng.choice(ARRAYS))
    comps = {"schemas": {"S%d" % i: copy.deepcopy(s) for i, s in enumerate(pool[:2])}}
    bodies = [copy.deepcopy(b) for b in rng.sample(BODIES, 2)]
    comps["schemas"]["B0"] = copy.deepcopy(bodies[0])

    def pick_schema():
        m = rng.random()
        if m < 0.45:
            i = rng.randrange(2)
            r = {"$ref": "#/components/schemas/S%d" % i}
            if rng.random() < 0.5 and "enum" not in pool[i]:      # keywords next to the reference (merged by the normaliser);
                t = pool[i].get("type")                             # an enum stays the only assertion of its schema (C01 dialect)
                if t == "string" and "maxLength" not in pool[i] and "minLength" not in pool[i]:
                    r["minLength"] = rng.choice([2, 3])
                elif t in ("number", "integer") and "maximum" not in pool[i] and "exclusiveMaximum" not in pool[i]:
                    r["maximum"] = pool[i].get("minimum", pool[i].get("exclusiveMinimum", 0)) + rng.choice([2, 3, 10])
            return r
        return copy.deepcopy(rng.choice(pool))

    paths = {}
    for o in range(n_ops):
        names = []
        params = []
        path = "/r%d" % o
        for _ in range(rng.choice([0, 1, 2, 2, 3])):
            pos = rng.choice(["query", "query", "header", "cookie", "path"])
            name = rng.choice(["id", "q", "k", "v"])
            if (name, pos) in names:
                continue
            names.append((name, pos))
            p = {"name": name, "in": pos, "schema": pick_schema()}
            if pos == "path":
                path += "/{%s}" % name
                if rng.random() < 0.5:
                    p["required"] = True
            elif rng.random() < 0.5:
                p["required"] = rng.random() < 0.6
            if rng.random() < 0.5:
                p["style"] = rng.choice(["simple", "form"])
            if rng.random() < 0.3:
                p["explode"] = rng.random() < 0.5
            params.append(p)
        op = {"operationId": "op%d" % o, "parameters": params, "responses": {}}
        if rng.random() < 0.6:
            m = rng.random()
            if m < 0.25:
                bs = {"$ref": "#/components/schemas/B0"}
            elif m < 0.4 and allow_body_scalar:
                bs = copy.deepcopy(rng.choice(pool))     # same schema as some parameter: separation
            else:
                bs = copy.deepcopy(rng.choice(bodies))
            body = {"content": {"application/json": {"schema": bs}}}
            if rng.random() < 0.5:
                body["required"] = rng.random() < 0.5
            op["requestBody"] = body
        paths[path] = {rng.choice(["get", "post", "put"]): op}
    if twins and rng.random() < 0.4:
        # one component referenced twice, once alone and once next to a keyword that tightens it, in two operations (or one)
        for i in rng.sample([0, 1], 2):
            t = pool[i].get("type")
            sib = None
            if "enum" in pool[i]:
                continue
            if t == "string" and "maxLength" not in pool[i] and "minLength" not in pool[i]:
                sib = {"minLength": rng.choice([2, 3])}
            elif t in ("number", "integer") and "maximum" not in pool[i] and "exclusiveMaximum" not in pool[i]:
                sib = {"maximum": pool[i].get("minimum", pool[i].get("exclusiveMinimum", 0)) + rng.choice([2, 3, 10])}
            if sib is None:
                continue
            ops = [list(v.values())[0] for v in paths.values()]
            a, b = (ops[0], ops[-1]) if rng.random() < 0.5 else (ops[-1], ops[0])
            ref = {"$ref": "#/components/schemas/S%d" % i}
            for o, sch, nm in ((a, dict(ref), "tw"), (b, dict(ref, **sib), "tx")):
                if not any(p["name"] == nm and p["in"] == "query" for p in o["parameters"]):
                    o["parameters"].append({"name": nm, "in": "query", "schema": sch, "required": True})
            break
    return {"info": {"title": "t"}, "paths": paths, "components": comps}


def overrides(rng, op, arrays=False):
    """valid_values for generate_all: lists of caller-supplied valid values"""
    ov = {}
    for p in op.parameters:
        if rng.random() < 0.4:
            ov[p.name] = [rng.choice(["o1", 777, "zz", 12] + ([["l1", "l2", "l3"]] if arrays else []))] * rng.choice([1, 2])
    return ov


def overwrites(rng, op):
    ow = {}
    for p in op.parameters:
        if rng.random() < 0.3:
            ow[p.name] = rng.choice(["w1", 555])
    return ow

"""C19: format_parameter_value vs the OpenAPI style table.
Stream F: exhaustive over style x explode x value shape, with seeded names / contents."""
import random, json, itertools
import fences_env
from common import Check, run_driver

fences_env.load()
from fences.open_api.format import format_parameter_value  # noqa: E402
from fences.open_api.open_api import Parameter, ParameterStyle, ParameterPosition  # noqa: E402
from fences.core.exception import FencesException  # noqa: E402
import graphs  # noqa: E402  (error naming)


def tok(s):
    return "S" + "-".join(str(ord(c)) for c in s)


ALPHA = "abzAZ09_ -.~:/?#[]@!$&'()*+;%xyé€\U0001F600"


def rstr(rng, allow_empty=False, delims=False):
    n = rng.choice([0] if allow_empty and rng.random() < 0.15 else [1, 1, 2, 3, 6])
    pool = ALPHA + (",=" if delims else "")
    return "".join(rng.choice(pool) for _ in range(n))


def rnum(rng):
    m = rng.random()
    if m < 0.5:
        return rng.choice([0, 1, -1, 7, 42, -300, 10**6, 2**53 + 1, 10**21])
    return rng.choice([0.5, -1.25, 1e-7, 3.0, 1e22, 2.5e-3, float(rng.randint(-5, 5))])


def relem(rng):
    m = rng.random()
    if m < 0.15:
        return rng.choice([0, 0.0, 1, -1])
    return rnum(rng) if m < 0.55 else rstr(rng)


def gen_values(rng, k):
    """one value of every shape, k times, plus values outside the contract"""
    out = []
    for _ in range(k):
        out.append(rstr(rng, allow_empty=True))
        out.append(rng.choice([True, False]))
        out.append(rnum(rng))
        out.append([relem(rng) for _ in range(rng.choice([0, 1, 2, 3, 5]))])
        out.append([relem(rng) for _ in range(rng.choice([1, 2, 3]))])
        d = {}
        for _ in range(rng.choice([0, 1, 2, 3])):
            d[rstr(rng)] = relem(rng)
        out.append(d)
    # values that compare equal but are different JSON values, in both orders (memoised renderings keyed by == would mix them up)
    out += [1.0, True, 0.0, False, -0.0, False, True, 1, 1.0, False, 0, 0.0, True]
    out += [None, (1, 2), {1, 2}, 1 + 2j, object]
    return out


def enc_elem(e):
    if isinstance(e, str):
        return ["e", tok(e)]
    return ["n", tok(str(e))]


def enc_value(v):
    if isinstance(v, str):
        return ["s", tok(v)]
    if isinstance(v, bool):
        return ["b", str(int(v))]
    if isinstance(v, (int, float)):
        return ["n", tok(str(v))]
    if isinstance(v, list):
        return ["l", str(len(v))] + [t for e in v for t in enc_elem(e)]
    if isinstance(v, dict):
        return ["d", str(len(v))] + [t for k, e in v.items() for t in [tok(k)] + enc_elem(e)]
    return ["o"]


def show_out(r):
    parts = []
    for k, o in r.items():
        if isinstance(o, str):
            parts.append(tok(k) + "~s" + tok(o))
        else:
            parts.append(tok(k) + "~n" + tok(str(o)))
    return ";".join(parts)


def strs(v):
    """the value with its scalars as strings (what a receiver should decode)"""
    def s(x):
        if isinstance(x, bool):
            return "true" if x else "false"
        return x if isinstance(x, str) else str(x)
    if isinstance(v, list):
        return [s(e) for e in v]
    if isinstance(v, dict):
        return {k: s(e) for k, e in v.items()}
    return s(v)


def spec_decode(style, explode, name, shape, out):
    """OpenAPI 3 style table, written independently of format.py and of coq/Format.v"""
    def split(text):
        return text.split(",") if text != "" else []
    if style == "form" and explode and shape == "object":
        return dict(out)
    text = out[name]
    if not isinstance(text, str):
        raise ValueError("not a string")
    if shape == "prim":
        return text
    if shape == "array":
        return split(text)
    items = split(text)
    if style == "simple" and explode:
        d = {}
        for it in items:
            k, v = it.split("=")
            d[k] = v
        return d
    if len(items) % 2:
        raise ValueError("odd")
    return {items[i]: items[i + 1] for i in range(0, len(items), 2)}


def clean(s):
    return s != "" and "," not in s and "=" not in s


def in_contract(v):
    if isinstance(v, (str, bool, int, float)):
        return True
    if isinstance(v, list):
        return all(isinstance(e, (str, int, float)) and not isinstance(e, bool) and clean(str(e)) for e in v)
    if isinstance(v, dict):
        return all(clean(k) and not isinstance(e, bool) and clean(str(e)) for k, e in v.items())
    return False


def shape(v):
    return "array" if isinstance(v, list) else "object" if isinstance(v, dict) else "prim"


def run_case(name, style, explode, v):
    p = Parameter(name=name, position=ParameterPosition.QUERY, required=False,
                  style=ParameterStyle.SIMPLE if style == "simple" else ParameterStyle.FORM,
                  explode=explode, schema={})
    return format_parameter_value(p, v)


def oracle(name, style, explode, v):
    res = []
    try:
        out = run_case(name, style, explode, v)
    except FencesException:
        if isinstance(v, (str, bool, int, float, list, dict)):
            res.append(("rejects-supported-value", "library exception for a supported value %r" % (v,)))
        return res
    except Exception as e:  # noqa
        res.append(("internal-error", "%s for value %r" % (type(e).__name__, v)))
        return res
    if not isinstance(v, (str, bool, int, float, list, dict)):
        res.append(("accepts-unsupported-value", "value %r is neither scalar, list nor dict but was rendered as %r" % (v, out)))
        return res
    if not in_contract(v):
        return res
    if style == "form" and explode and isinstance(v, list):
        keep = v[-1] if v else ''
        if list(out.keys()) != [name] or out[name] not in (keep, str(keep)):
            res.append(("exploded-form-array", "exploded form array %r rendered as %r, expected its last element" % (v, out)))
        return res
    try:
        dec = spec_decode(style, explode, name, shape(v), out)
    except Exception as e:  # noqa
        res.append(("not-decodable", "%s explode=%s value %r rendered as %r which the style rules cannot decode (%s)" % (style, explode, v, out, e)))
        return res
    if dec != strs(v):
        res.append(("roundtrip", "%s explode=%s value %r rendered as %r decodes to %r, expected %r" % (style, explode, v, out, dec, strs(v))))
    return res


def run(pid, tier):
    ck = Check(pid, tier)
    if not ck.coq():
        ck.violation("coq-obligation", "coq/Properties/C19.v no longer checks: %s" % ck.obl["log"][-300:],
                     {"theorem": ck.obl["file"]}, found_input=False)
    rng = random.Random(ck.seed * 31 + 5)
    k = 12 if tier == "quick" else 200
    cases = []
    for v in gen_values(rng, k):
        for style in ("simple", "form"):
            for explode in (False, True):
                cases.append((rstr(rng), style, explode, v))
    # values with delimiter characters: outside the round-trip contract, inside the correspondence
    for _ in range(k * 4):
        v = rng.choice([rstr(rng, True, True), [rstr(rng, True, True) for _ in range(rng.randint(0, 3))],
                        {rstr(rng, False, True): rstr(rng, True, True) for _ in range(rng.randint(0, 3))}])
        cases.append((rstr(rng), rng.choice(["simple", "form"]), rng.random() < 0.5, v))
    lines = []
    for name, style, explode, v in cases:
        lines.append(" ".join(["F", tok(name), "0" if style == "simple" else "1", str(int(explode))] + enc_value(v)))
    model = run_driver(lines)
    hist = {}
    for (name, style, explode, v), m in zip(cases, model):
        key = "%s/%s/%s" % (style, explode, shape(v) if isinstance(v, (str, bool, int, float, list, dict)) else "other")
        hist[key] = hist.get(key, 0) + 1
        ck.count(json.dumps([name, style, explode, repr(v)]), not isinstance(v, (bool, type(None))))
        try:
            impl = "out=ok:" + show_out(run_case(name, style, explode, v))
        except Exception as e:  # noqa
            impl = "out=" + graphs.err_str(e)
        ck.cov["traces_validated_against_impl"] += 1
        # elements that are booleans / nested are outside the model's value type: skip the diff there
        modelled = not (isinstance(v, (list, dict)) and any(isinstance(e, (bool, list, dict, type(None)))
                        for e in (v if isinstance(v, list) else v.values())))
        mo = m.split("|")[0]
        if modelled and impl != mo:
            ck.cov["disagreements_checked"] += 1
            ck.violation("correspondence-F", "model (coq/Format.v) and format.py disagree",
                         {"stream": "F", "name": name, "style": style, "explode": explode, "value": repr(v),
                          "impl": impl, "model": mo, "theorem": "correspondence stream F"}, found_input=False)
        # the spec decoder of the model against the independent Python decoder
        if modelled and in_contract(v) and isinstance(v, (str, bool, int, float, list, dict)) and "out=ok" in m:
            dec_m = m.split("|dec=")[1].split("|")[0]
            strs_m = m.split("|strs=")[1]
            if not (style == "form" and explode and isinstance(v, list)) and dec_m != strs_m:
                ck.violation("model-roundtrip", "model decode differs from strs on %r" % (v,),
                             {"case": [name, style, explode, repr(v)], "theorem": "C19_roundtrip"}, found_input=False)
        for sig, what in oracle(name, style, explode, v):
            ck.violation(sig, what, {"stream": "F", "name": name, "style": style, "explode": explode, "value": repr(v)})
    # findings replace the broken-correspondence report when a concrete input exists
    ck.sample({"name": cases[3][0], "style": cases[3][1], "explode": cases[3][2], "value": repr(cases[3][3])})
    ck.sample({"name": cases[18][0], "style": cases[18][1], "explode": cases[18][2], "value": repr(cases[18][3])})
    ck.cov["rule"] = ("every style x explode x value shape (string, bool, int, float, flat list, flat dict, unsupported objects), "
                      "seeded names and contents incl. unicode and URL-reserved characters, plus a stream with delimiter characters "
                      "(correspondence only); distinct = (name, style, explode, value), non-trivial = not a bare boolean/None")
    ck.notes["input_distribution"] = hist
    ck.assumptions = ["a number is carried into the model as the text Python's str() gives it; float formatting itself is not modelled",
                      "urlencode / the wire format are outside C19 (the property is about the returned dict)"]
    return ck.finish(trusted=["model of open_api/format.py: coq/Format.v (hand-written, tied by stream F)",
                              "specification: decode in coq/Format.v written from the OpenAPI 3 style table, cross-checked against an independent Python decoder"])


def replay(pid, path):
    d = json.load(open(path))
    v = eval(d["value"], {"__builtins__": {}}, {"inf": float("inf"), "nan": float("nan")})
    res = oracle(d["name"], d["style"], d["explode"], v)
    for sig, what in res:
        print("replayed: %s [%s]" % (what, sig))
    return 1 if res else 0

import sys, random, subprocess, time
sys.path.insert(0, '/verif/harness')
import graphs
rng = random.Random(1)
cases=[]
for i in range(3000):
    ops, root = graphs.random_program(rng, 8)
    xp = graphs.complete_paths(ops, root, 4, 6)
    xp = xp + [graphs.mutate_path(rng, p) for p in xp[:3]]
    cases.append((ops, root, xp))
t=time.time()
lines = [graphs.case_line((0,0), 600, r, o, x) for o, r, x in cases]
out = subprocess.run(['/verif/build/driver'], input="\n".join(lines)+"\n", capture_output=True, text=True).stdout.split("\n")
print("model", time.time()-t); t=time.time()
import fences_env
bad=0
def run():
    global bad
    for (o,r,x),m in zip(cases,out):
        p = graphs.observe(o, r, x)
        if p != m:
            bad+=1
            if bad<4: print("OPS",o); print("IMPL ",p); print("MODEL",m)
fences_env.run_with_big_stack(run, reclimit=2500)
print("impl", time.time()-t, "bad", bad, "wf", sum(graphs.wf(o,r) for o,r,x in cases))
import collections
print(collections.Counter(m.split("status=")[1].split("|")[0] if "status=" in m else m.split("fail=")[1].split("|")[0] for m in out if m))

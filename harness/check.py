import sys, os, argparse
sys.path.insert(0, os.path.dirname(os.path.abspath(__file__)))

CORE = {"C03", "C04", "C05"}


def main():
    ap = argparse.ArgumentParser()
    ap.add_argument("pid")
    ap.add_argument("--tier", default=os.environ.get("VERIF_TIER", "quick"))
    ap.add_argument("--replay")
    a = ap.parse_args()
    if a.pid in CORE:
        import core
        mod = core
    elif a.pid == "C17":
        import c17
        mod = c17
    elif a.pid == "C13":
        import c13
        mod = c13
    elif a.pid == "C10":
        import c10
        mod = c10
    elif a.pid == "C07":
        import c07
        mod = c07
    elif a.pid == "C11":
        import c11
        mod = c11
    elif a.pid in ("C01", "C02", "C12"):
        import c01
        mod = c01
    elif a.pid in ("C06", "C16"):
        import c06
        mod = c06
    elif a.pid == "C08":
        import c08
        mod = c08
    elif a.pid in ("C09", "C20"):
        import c09
        mod = c09
    elif a.pid in ("C14", "C15"):
        import core2
        mod = core2
    else:
        mod = __import__(a.pid.lower())
    if a.replay:
        sys.exit(mod.replay(a.pid, a.replay))
    sys.exit(mod.run(a.pid, a.tier))


main()

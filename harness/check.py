import sys, os, argparse
sys.path.insert(0, os.path.dirname(os.path.abspath(__file__)))

CORE = {"C03", "C04", "C05"}


def main():
    ap = argparse.ArgumentParser()
    ap.add_argument("pid")
    ap.add_argument("--tier", default=os.environ.get("VERIF_TIER", "quick"))
    ap.add_argument("--replay")
    a = ap.parse_args()
    if a.pid in CORE:
        import core
        mod = core
    elif a.pid == "C17":
        import c17
        mod = c17
    elif a.pid == "C13":
        import c13
        mod = c13
    elif a.pid == "C10":
        import c10
        mod = c10
    elif a.pid == "C07":
        import c07
        mod = c07
    elif a.pid == "C11":
        import c11
        mod = c11
    elif a.pid in ("C01", "C02", "C12"):
        import c01
        mod = c01
    elif a.pid in ("C06", "C16"):
        import c06
        mod = c06
    elif a.pid == "C08":
        import c08
        mod = c08
    elif a.pid in ("C09", "C20"):
        import c09
        mod = c09
    elif a.pid in ("C14", "C15"):
        import core2
        mod = core2
    else:
        mod = __import__(a.pid.lower())
    if a.replay:
        sys.exit(mod.replay(a.pid, a.replay))
    watchdog(a.pid, a.tier)
    try:
        rc = mod.run(a.pid, a.tier)
    except SystemExit:
        raise
    except BaseException:  # noqa
        # an exception of the machinery itself (seen once, under an eleven-fold parallel load) says nothing about the
        # property: keep the traceback and run the check once more; a second exception ends the check with exit code 2
        import traceback
        tb = traceback.format_exc()
        sys.stderr.write(tb)
        try:
            verif = os.path.dirname(os.path.dirname(os.path.abspath(__file__)))
            with open(os.path.join(verif, "replays", "%s-machinery-error.txt" % a.pid), "w") as f:
                f.write(tb)
        except Exception:  # noqa
            pass
        sys.stderr.write("check machinery raised an exception; running the %s check of %s once more\n" % (a.tier, a.pid))
        try:
            rc = mod.run(a.pid, a.tier)
        except SystemExit:
            raise
        except BaseException:  # noqa
            traceback.print_exc()
            sys.exit(2)
    sys.exit(rc)


def watchdog(pid, tier):
    """A check that does not finish shows nothing: after a generous wall-clock budget (the checks take minutes on a tree
    where the property holds) it is reported as such, with the name of the check in the replay, instead of hanging."""
    import threading, json, time
    budget = int(os.environ.get("VERIF_WATCHDOG", "1800" if tier == "quick" else "21600"))

    def fire():
        verif = os.path.dirname(os.path.dirname(os.path.abspath(__file__)))
        path = os.path.join(verif, "replays", "%s-watchdog.json" % pid)
        try:
            with open(path, "w") as f:
                json.dump({"property": pid, "kind": "broken-obligation", "signature": "check-did-not-finish",
                           "what": "the %s check of %s did not finish within %d s: the implementation under test does not return on some generated input "
                                   "(or the check's own budget is too small); the property is not shown to hold" % (tier, pid, budget),
                           "theorem": "./check %s --tier %s (whole check)" % (pid, tier)}, f, indent=1)
        except Exception:  # noqa
            pass
        print("VIOLATION property=%s replay=%s no-failing-input-found" % (pid, path), flush=True)
        os._exit(1)
    t = threading.Timer(budget, fire)
    t.daemon = True
    t.start()


main()

"""C13: results depend only on the input -- repeatable, history-free, input untouched.
A random history of calls over all public entry points is followed by a probe; the probe's labelled samples are
compared with the same probe run first in a fresh interpreter (same PYTHONHASHSEED, same random seed)."""
import random, json, copy, os, sys, subprocess
from concurrent.futures import ThreadPoolExecutor
import fences_env
from common import Check, VERIF, BUILD
import regexes as R, grammars as GM, c01, xsds as X, jsonschemas as J, c13_probe


def gen_action(rng):
    k = rng.choice(["json", "json", "normalize", "regex", "grammar", "xml", "xml", "xml"])
    if k in ("json", "normalize"):
        while True:
            d = c01.gen_doc(rng)
            if isinstance(d, dict) and '"$ref"' not in json.dumps(d) and rng.random() < 0.75:
                continue                      # references are where names are looked up: keep them frequent
            if isinstance(d, dict) and rng.random() < 0.4:
                # references and boolean schemas directly inside root-level combinators
                defs = d.setdefault("$defs", {})
                defs.setdefault("R0", {"type": "string"})
                d[rng.choice(["allOf", "anyOf"])] = [rng.choice([{"$ref": "#/$defs/R0"}, True, {"type": "number"}]) for _ in range(rng.choice([1, 2]))]
            if isinstance(d, dict) and rng.random() < 0.3:
                # a referenced definition whose own combinator list has a reference / boolean member
                defs = d.setdefault("$defs", {})
                defs.setdefault("R0", {"type": "string"})
                defs["R1"] = {rng.choice(["anyOf", "anyOf", "allOf"]): [{"$ref": "#/$defs/R0"}, rng.choice([True, {"type": "null"}]), {"type": "null"}]}
                if isinstance(d.get("properties", {}), dict):
                    d.setdefault("properties", {})["rv"] = {"$ref": "#/$defs/R1"}
            if isinstance(d, dict) and J.metaschema_ok(d):
                return [k, d]
    if k == "regex":
        while True:
            a = R.gen_regex(rng, rng.choice([1, 2]))
            if R.supported(a):
                return [k, R.pr_regex(a)]
    if k == "grammar":
        while True:
            g, s = GM.gen_grammar(rng)
            if GM.names_defined(g) and GM.productive(g):
                return [k, {"rules": g, "start": s}]
    return [k, X.to_xsd(X.gen_schema(rng))]


def twin(rng, probe):
    """an input that uses the same names as the probe (definitions, rules, named types) for different things: whatever
    is remembered per name / per reference string across calls shows up in the probe"""
    kind, data = probe[0], probe[1]
    if kind in ("json", "normalize") and isinstance(data, dict):
        t = copy.deepcopy(data)
        defs = t.get("$defs")
        pool = [{"type": "string", "minLength": 3}, {"type": "number", "minimum": 7}, {"type": "boolean"},
                {"enum": ["p", "q"]}, {"type": "array", "items": {"type": "null"}, "minItems": 0}, {"type": "integer", "maximum": -4}]
        if isinstance(defs, dict) and defs:
            for k in list(defs.keys()):
                if rng.random() < 0.8:
                    defs[k] = copy.deepcopy(rng.choice(pool))
        else:
            # same root pointer "#", other content below it
            for k in ("properties", "items", "prefixItems"):
                if k in t and rng.random() < 0.7:
                    t.pop(k)
            t["title"] = "twin"
        if J.metaschema_ok(t):
            return [kind, t]
        return None
    if kind == "grammar":
        t = copy.deepcopy(data)
        rules = t["rules"]
        if rules:
            i = rng.randrange(len(rules))
            rules[i] = [rules[i][0], ["T", rng.choice(["p", "q", "r"])]]
            if GM.names_defined(rules) and GM.productive(rules):
                return [kind, t]
        return None
    if kind == "xml":
        txt = data
        if "ST0" in txt or "CT0" in txt:
            t = X.to_xsd(X.gen_schema(rng))
            return [kind, t] if ("ST0" in t or "CT0" in t) else None
    return None


def fresh(job, hashseed):
    env = dict(os.environ, PYTHONHASHSEED=str(hashseed), PYTHONPATH=os.path.join(VERIF, "harness"), PYTHONDONTWRITEBYTECODE="1",
               FENCES_GRAMMAR_CACHE=os.path.join(BUILD, "grammar_cache.py"))
    p = subprocess.run([sys.executable, "-W", "ignore", os.path.join(VERIF, "harness", "c13_probe.py")], input=json.dumps(job), capture_output=True, text=True, env=env, timeout=120)
    try:
        return json.loads(p.stdout.strip().split("\n")[-1])
    except Exception:  # noqa
        return {"obs": ["probe-process-failed: " + p.stderr[-200:]], "unchanged": True}


def run(pid, tier):
    ck = Check(pid, tier)
    if not ck.coq():
        ck.violation("coq-obligation", "coq/Properties/C13.v no longer checks: %s" % ck.obl["log"][-300:],
                     {"theorem": ck.obl["file"]}, found_input=False)
    os.environ["FENCES_GRAMMAR_CACHE"] = os.path.join(BUILD, "grammar_cache.py")
    fences_env._grammar_source()
    rng = random.Random(ck.seed * 271 + 9)
    n = 48 if tier == "quick" else 500
    hashseed = os.environ.get("PYTHONHASHSEED", "0")
    jobs = []
    hist = {"json": 0, "normalize": 0, "regex": 0, "grammar": 0, "xml": 0, "history_calls": 0, "partial_generators": 0}
    for _ in range(n):
        h = []
        for _ in range(rng.choice([3, 5, 8, 12])):
            a = gen_action(rng)
            if rng.random() < 0.3:
                a = a + [rng.choice([1, 2])]
                hist["partial_generators"] += 1
            h.append(a)
        if rng.random() < 0.5 and h:
            probe = copy.deepcopy(rng.choice(h)[:2])          # the probe input was already processed in the history
        else:
            probe = gen_action(rng)
        if rng.random() < 0.9:
            tw = twin(rng, probe)
            if tw is not None:
                h.insert(rng.randrange(len(h) + 1), tw)
                hist["twins"] = hist.get("twins", 0) + 1
        hist[probe[0]] += 1
        hist["history_calls"] += len(h)
        jobs.append({"history": h, "probe": probe, "seed": rng.randrange(1000)})
    # dedicated name-reuse jobs: an input and, before it, its twin (same definition / rule / type names, other content)
    for kind, count in (("json", 8), ("normalize", 4), ("grammar", 3), ("xml", 3)):
        made = 0
        tries = 0
        while made < (count if tier == "quick" else count * 8) and tries < 2000:
            tries += 1
            probe = gen_action(rng)
            if probe[0] != kind:
                continue
            if kind in ("json", "normalize") and '"$defs"' not in json.dumps(probe[1]):
                continue
            tw = twin(rng, probe)
            if tw is None:
                continue
            h = [tw] + [gen_action(rng) for _ in range(rng.choice([0, 1, 2]))]
            rng.shuffle(h)
            jobs.append({"history": h, "probe": probe, "seed": rng.randrange(1000)})
            hist[probe[0]] += 1
            hist["history_calls"] += len(h)
            hist["twins"] = hist.get("twins", 0) + 1
            made += 1
    # the same regular expression with other length facets (what is computed per pattern must not be served across them)
    def pattern_xsd(pat, mn, mx):
        return ('<xs:schema xmlns:xs="http://www.w3.org/2001/XMLSchema"><xs:element name="root"><xs:simpleType><xs:restriction base="xs:string">'
                '<xs:pattern value="%s" /><xs:minLength value="%d" />%s</xs:restriction></xs:simpleType></xs:element></xs:schema>' % (
                    pat, mn, '<xs:maxLength value="%d" />' % mx if mx is not None else ""))
    for _ in range(3 if tier == "quick" else 24):
        pat = rng.choice(["ab+", "x[0-9]{2}", "(ab|c)+d", "a{2,3}b"])
        lo = rng.choice([1, 2])
        probe = ["xml", pattern_xsd(pat, lo, lo + rng.choice([3, 4, 6]))]
        tw = ["xml", pattern_xsd(pat, rng.choice([6, 9, 12]), None)]
        h = [tw] + [gen_action(rng) for _ in range(rng.choice([0, 1]))]
        rng.shuffle(h)
        jobs.append({"history": h, "probe": probe, "seed": rng.randrange(1000)})
        hist["xml"] += 1
        hist["history_calls"] += len(h)
        hist["pattern_twins"] = hist.get("pattern_twins", 0) + 1
    # an expensive input before a cheap one: whatever a call switches on for itself when its work explodes (a cheaper
    # strategy, a cut-off, a cache) must not stay switched on for the next input.  History: a conjunction of wide
    # disjunctions (hundreds of combinations); probe: a conjunction of two small disjunctions whose result depends on
    # the strategy.
    def wide(rng):
        kws = [("minimum", lambda i: i), ("maximum", lambda i: 100 * i), ("multipleOf", lambda i: i), ("exclusiveMaximum", lambda i: 1000 + i)]
        rng.shuffle(kws)
        w = rng.choice([5, 6, 7])
        return {"type": "number", "allOf": [{"anyOf": [{k: f(i)} for i in range(1, w + 1)]} for k, f in kws[:3]]}
    def narrow(rng):
        a = rng.sample([{"type": "string"}, {"type": "number"}, {"type": "array"}, {"type": "boolean"}], rng.choice([2, 3]))
        b = rng.sample([{"minLength": 3}, {"minimum": 7}, {"minItems": 2}, {"maxLength": 5}], 2)
        return {"allOf": [{"anyOf": a}, {"anyOf": b}]}
    for _ in range(3 if tier == "quick" else 24):
        kind = rng.choice(["json", "json", "normalize"])
        h = [[rng.choice(["json", "normalize"]), wide(rng)]] + [gen_action(rng) for _ in range(rng.choice([0, 1]))]
        rng.shuffle(h)
        jobs.append({"history": h, "probe": [kind, narrow(rng)], "seed": rng.randrange(1000)})
        hist[kind] += 1
        hist["history_calls"] += len(h)
        hist["wide_then_narrow"] = hist.get("wide_then_narrow", 0) + 1
    # same process: history then probe, all in this interpreter... but one interpreter per job keeps jobs independent
    def both(job):
        with_history = fresh(job, hashseed)
        alone = fresh({"history": [], "probe": job["probe"], "seed": job["seed"]}, hashseed)
        return with_history, alone
    with ThreadPoolExecutor(max_workers=12) as ex:
        results = list(ex.map(both, jobs))
    for job, (a, b) in zip(jobs, results):
        ck.count(json.dumps(job, sort_keys=True), len(job["history"]) >= 1)
        ck.cov["traces_validated_against_impl"] += 1
        if not a["unchanged"] or not b["unchanged"]:
            ck.violation("input-modified:" + job["probe"][0], "the caller's %s input is modified by processing it" % job["probe"][0], {"job": job})
        for i in a.get("modified", []):
            act = job["history"][i]
            ck.violation("input-modified:" + act[0], "the caller's %s input is modified by processing it" % act[0],
                         {"job": {"history": [], "probe": act[:2], "seed": job["seed"]}})
        if any(isinstance(o, list) and len(o) > 2 for o in a["obs"] + b["obs"]):
            ck.violation("re-execution-differs:" + job["probe"][0], "executing the same path twice gives different samples", {"job": job})
        if a["obs"] != b["obs"]:
            # shrink the history
            h = list(job["history"])
            i = 0
            while i < len(h) and len(h) > 1:
                cand = h[:i] + h[i + 1:]
                r = fresh({"history": cand, "probe": job["probe"], "seed": job["seed"]}, hashseed)
                if r["obs"] != b["obs"]:
                    h = cand
                else:
                    i += 1
            ck.violation("history-dependent:" + job["probe"][0], "the %s probe gives different labelled samples after a history of %d calls than in a fresh interpreter" % (
                job["probe"][0], len(h)), {"job": dict(job, history=h), "with_history": a["obs"][:6], "fresh": b["obs"][:6]})
    # core histories: generate_paths() on one node of a hand-built graph, then on another node of the same graph (a
    # sub-decision after the root, or the root after a sub-decision): the second enumeration must equal the one on a
    # fresh build of the same graph -- the distance annotations a run leaves on transitions it shares with, or that
    # lead into, the second run's sub-graph must not steer it.
    import graphs
    fences_env.load()
    sys.setrecursionlimit(max(sys.getrecursionlimit(), 2600))

    def enumerate_from(nodes, k):
        try:
            return [[bool(e.is_valid), list(e.path)] for e in nodes[k].generate_paths()]
        except RecursionError:
            return "RecursionError"
        except Exception as e:  # noqa
            return type(e).__name__

    core_n = 400 if tier == "quick" else 6000
    core_hist = {"sub_after_root": 0, "root_after_sub": 0}
    for i in range(core_n):
        gen = rng.choice([graphs.random_program, graphs.productive_cyclic_program])
        ops, root = gen(rng, rng.choice([4, 6, 9])) if gen is graphs.productive_cyclic_program else gen(rng, rng.choice([4, 6, 9]), allow_bad=False)
        kinds, outs = graphs._tables(ops)
        subs = [k for k in range(len(kinds)) if k != root and kinds[k][0] == 'D' and outs[k]]
        if not subs:
            continue
        d = rng.choice(subs)
        first, second = (root, d) if i % 2 == 0 else (d, root)
        core_hist["sub_after_root" if i % 2 == 0 else "root_after_sub"] += 1
        nodes = graphs.build(ops)
        enumerate_from(nodes, first)
        after = enumerate_from(nodes, second)
        alone = enumerate_from(graphs.build(ops), second)
        ck.count("core" + json.dumps([ops, first, second]), True)
        if after != alone:
            ck.violation("history-dependent:core", "generate_paths() on node %d gives other entries after generate_paths() on node %d of the same graph than on a fresh build" % (second, first),
                         {"core": {"ops": [list(o) for o in ops], "first": first, "second": second}, "after": after if isinstance(after, str) else after[:8],
                          "fresh": alone if isinstance(alone, str) else alone[:8]})
            break
    hist.update(core_hist)
    ck.sample({"history": [a[0] for a in jobs[0]["history"]], "probe": jobs[0]["probe"][0]})
    ck.cov["rule"] = ("random histories of 3-12 calls over parse_json_schema / normalize / parse_regex / parse_grammar / parse_xml_schema, each followed by (possibly partially "
                      "consumed) generate_paths and repeated execute, then a probe input (half of the time one already seen in the history); the probe is compared with a fresh "
                      "interpreter with the same PYTHONHASHSEED and random seed; inputs are deep-compared before/after; plus dedicated name-reuse jobs (an input preceded by a twin that uses the same definition / rule / type names for other content); distinct = job, non-trivial = non-empty history")
    ck.notes["input_distribution"] = hist
    ck.assumptions = ["hidden interpreter state can only be sampled, not excluded: the proof part covers the state the model names (annotations are reset and recomputed)"]
    return ck.finish(level="other", trusted=["fresh-interpreter comparison (subprocess)"],
                     explanation="history-vs-fresh-interpreter correspondence on random call histories; Coq: the models are pure functions of their input, generate_paths resets and recomputes "
                                 "its annotations (see Properties/C13.v)")


def replay(pid, path):
    d = json.load(open(path))
    if "core" in d:
        import graphs
        fences_env.load()
        sys.setrecursionlimit(2600)
        c = d["core"]
        ops = [tuple(o) for o in c["ops"]]

        def en(nodes, k):
            try:
                return [[bool(e.is_valid), list(e.path)] for e in nodes[k].generate_paths()]
            except Exception as e:  # noqa
                return type(e).__name__
        nodes = graphs.build(ops)
        en(nodes, c["first"])
        bad = en(nodes, c["second"]) != en(graphs.build(ops), c["second"])
        print("replayed:", "differs" if bad else "same")
        return 1 if bad else 0
    job = d["job"]
    hs = os.environ.get("PYTHONHASHSEED", "0")
    a = fresh(job, hs)
    b = fresh({"history": [], "probe": job["probe"], "seed": job["seed"]}, hs)
    bad = a["obs"] != b["obs"] or not a["unchanged"]
    print("replayed:", "differs" if bad else "same")
    return 1 if bad else 0

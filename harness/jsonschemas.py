"""JSON side of the harness: token encoding, schema generators for the C06/C16 and C01/C02 dialects,
canonicalisation of normal forms, the extended validator (NOT_enum / NOT_multipleOf), instance grids,
and insertion-ordered sets installed into the modules under test for correspondence runs."""
import json, random, copy, hashlib
import fences_env

fences_env.load()
import jsonschema  # noqa: E402
from jsonschema import validators  # noqa: E402


def tok(s):
    return "S" + "-".join(str(ord(c)) for c in s)


def untok(t):
    return "" if len(t) <= 1 else "".join(chr(int(x)) for x in t[1:].split("-"))


def enc_json(v):
    if v is None:
        return ["n"]
    if v is True:
        return ["t"]
    if v is False:
        return ["f"]
    if isinstance(v, int):
        return ["i%d" % v]
    if isinstance(v, float):
        if v == int(v):
            return ["i%d" % int(v)]
        raise ValueError("non-integral number outside the model")
    if isinstance(v, str):
        return ["s" + tok(v)]
    if isinstance(v, list):
        return ["a%d" % len(v)] + [t for x in v for t in enc_json(x)]
    if isinstance(v, dict):
        return ["o%d" % len(v)] + [t for k, x in v.items() for t in [tok(k)] + enc_json(x)]
    raise ValueError("not JSON: %r" % (v,))


def dec_json(toks, pos=0):
    t = toks[pos]
    c = t[0]
    if c == 'n':
        return None, pos + 1
    if c == 't':
        return True, pos + 1
    if c == 'f':
        return False, pos + 1
    if c == 'i':
        return int(t[1:]), pos + 1
    if c == 's':
        return untok(t[1:]), pos + 1
    if c == 'a':
        out = []
        pos += 1
        for _ in range(int(t[1:])):
            v, pos = dec_json(toks, pos)
            out.append(v)
        return out, pos
    if c == 'o':
        out = {}
        pos += 1
        for _ in range(int(t[1:])):
            k = untok(toks[pos])
            v, pos = dec_json(toks, pos + 1)
            out[k] = v
        return out, pos
    raise ValueError(t)


# ---------------------------------------------------------------------------------------------
class OSet:
    """insertion-ordered set with Python == semantics (hash based, so 1 == True == 1.0)"""

    def __init__(self, it=()):
        self.d = {}
        for x in it:
            self.d.setdefault(x, x)

    def __iter__(self):
        return iter(list(self.d.values()))

    def __len__(self):
        return len(self.d)

    def __contains__(self, x):
        return x in self.d

    def __bool__(self):
        return bool(self.d)

    def add(self, x):
        self.d.setdefault(x, x)

    def remove(self, x):
        del self.d[x]

    def discard(self, x):
        self.d.pop(x, None)

    def __sub__(self, o):
        return OSet(x for x in self if x not in o)

    def __and__(self, o):
        return OSet(x for x in self if x in o)

    def __or__(self, o):
        r = OSet(self)
        for x in o:
            r.add(x)
        return r

    def __eq__(self, o):
        return set(self.d) == set(o)

    def __repr__(self):
        return "OSet(%r)" % list(self)


def install_ordered_sets():
    from fences.json_schema import normalize as NZ, parse as PZ
    NZ.set = OSet
    PZ.set = OSet


def uninstall_ordered_sets():
    from fences.json_schema import normalize as NZ, parse as PZ
    for m in (NZ, PZ):
        if 'set' in m.__dict__:
            del m.__dict__['set']


# ---------------------------------------------------------------------------------------------
SET_KEYS = ("type", "required", "enum", "NOT_enum")


def canon(nf):
    """canonical form of a normal form: dict keys sorted, set-valued lists sorted, and the $defs table taken
    modulo structural equality of its entries (duplicate definitions with equal content are merged by
    partition refinement) and renamed in order of first use from the root"""
    if not isinstance(nf, dict):
        return nf
    defs = nf.get("$defs", {})
    if not isinstance(defs, dict):
        defs = {}

    def norm(x, key, cls):
        if isinstance(x, dict):
            return {k: norm(x[k], k, cls) for k in sorted(x.keys())}
        if isinstance(x, list):
            l = [norm(y, None, cls) for y in x]
            if key in SET_KEYS:
                l = sorted(l, key=lambda y: json.dumps(y, sort_keys=True))
            return l
        if key == "$ref" and isinstance(x, str) and x.startswith("#/$defs/") and x[8:] in cls:
            return "#/$defs/%s" % cls[x[8:]]
        return x
    cls = {k: 0 for k in defs}
    for _ in range(len(defs) + 2):
        sigs = {k: json.dumps(norm(v, None, cls), sort_keys=True) for k, v in defs.items()}
        ids = {}
        new = {}
        for k in defs:
            new[k] = ids.setdefault(sigs[k], len(ids))
        if len(set(new.values())) == len(set(cls.values())) and _ > 0:
            cls = new
            break
        cls = new
    # rename classes in order of first use from the root
    order = {}
    body = {k: v for k, v in nf.items() if k != "$defs"}

    def visit(x, key=None):
        if isinstance(x, dict):
            for k in sorted(x.keys()):
                visit(x[k], k)
        elif isinstance(x, list):
            items = x
            if key in SET_KEYS:
                items = sorted(x, key=lambda y: json.dumps(y, sort_keys=True, default=str))
            for y in items:
                visit(y)
        elif key == "$ref" and isinstance(x, str) and x.startswith("#/$defs/") and x[8:] in cls:
            c = cls[x[8:]]
            if c not in order:
                order[c] = len(order)
                rep = next(k for k in defs if cls[k] == c)
                visit(defs[rep])
    visit(body)
    for k in defs:                      # unreferenced entries keep a stable place at the end
        if cls[k] not in order:
            order[cls[k]] = len(order)
            visit(defs[k])
    final = {k: str(order[cls[k]]) for k in defs}
    out = norm(body, None, final)
    out["$defs"] = {}
    for k, v in defs.items():
        out["$defs"].setdefault(final[k], norm(v, None, final))
    out["$defs"] = {k: out["$defs"][k] for k in sorted(out["$defs"], key=int)}
    return out


# ---------------------------------------------------------------------------------------------
# extended validator
def _not_enum(validator, value, instance, schema):
    if any(jsonschema._utils.equal(instance, v) if hasattr(jsonschema, "_utils") else instance == v for v in value):
        yield jsonschema.ValidationError("%r is one of the excluded values" % (instance,))


def _not_multiple_of(validator, value, instance, schema):
    if validator.is_type(instance, "number") and value != 0:
        q = instance / value
        if q == int(q):
            yield jsonschema.ValidationError("%r is a multiple of %r" % (instance, value))


ExtValidator = validators.extend(jsonschema.Draft202012Validator, {"NOT_enum": _not_enum, "NOT_multipleOf": _not_multiple_of})


def accepts(schema, instance):
    return ExtValidator(schema).is_valid(instance)


def metaschema_ok(schema):
    try:
        jsonschema.Draft202012Validator.check_schema(schema)
        return True
    except Exception:  # noqa
        return False


# ---------------------------------------------------------------------------------------------
# generator for the C06 / C16 dialect
NAMES = ["a", "b", "c"]
TYPES = ["string", "number", "integer", "boolean", "null", "object", "array"]


def gen_scalar_assertions(rng):
    d = {}
    m = rng.random()
    if m < 0.35:
        d["type"] = rng.choice(TYPES) if rng.random() < 0.7 else rng.sample(TYPES, rng.choice([1, 2, 3]))
    k = rng.random()
    if k < 0.18:
        d[rng.choice(["minimum", "exclusiveMinimum"])] = rng.randint(-3, 8)
    elif k < 0.36:
        d[rng.choice(["maximum", "exclusiveMaximum"])] = rng.randint(0, 12)
    elif k < 0.44:
        d["minimum"] = rng.randint(-3, 4)
        d["maximum"] = d["minimum"] + rng.randint(0, 6)
    elif k < 0.52:
        d["multipleOf"] = rng.choice([1, 2, 3, 4, 6])
    elif k < 0.62:
        d[rng.choice(["minLength", "maxLength"])] = rng.randint(0, 4)
    elif k < 0.70:
        d[rng.choice(["minItems", "maxItems"])] = rng.randint(0, 3)
    elif k < 0.80:
        d["enum"] = rng.sample(["x", "y", 1, 2, 7, None, True, "zz"], rng.choice([1, 2, 3]))
    elif k < 0.85:
        d["const"] = rng.choice(["x", 1, 7, None, False])
        if rng.random() < 0.35:       # const next to enum in one sub-schema
            d["enum"] = rng.sample(["x", "y", 1, 2, 7, None, False, "zz"], rng.choice([1, 2, 3]))
    return d


def negatable(s):
    """schema may stand under not / if / oneOf: at most one name under properties/required, no items/prefixItems/contains"""
    if not isinstance(s, dict):
        return True
    if any(k in s for k in ("items", "prefixItems", "contains", "additionalProperties", "anyOf", "oneOf", "allOf", "not", "if", "dependentRequired", "$ref")):
        return False
    names = set(s.get("properties", {}).keys()) | set(s.get("required", []))
    return len(names) <= 1 and all(negatable(v) for v in s.get("properties", {}).values())


def gen_negatable(rng, depth):
    d = gen_scalar_assertions(rng)
    if depth > 0 and rng.random() < 0.3:
        n = rng.choice(NAMES)
        if rng.random() < 0.5:
            d["required"] = [n]
        if rng.random() < 0.7:
            d["properties"] = {n: gen_negatable(rng, depth - 1)}
    return d


def gen_schema(rng, depth, refs=(), allow=("allOf", "anyOf", "oneOf", "not", "if", "depreq", "ref", "bool")):
    if "bool" in allow and rng.random() < 0.05:
        return rng.random() < 0.7
    d = gen_scalar_assertions(rng)
    if depth <= 0:
        return d
    m = rng.random()
    if m < 0.3:
        props = {}
        for n in rng.sample(NAMES, rng.choice([1, 2])):
            props[n] = gen_schema(rng, depth - 1, refs, allow)
        d["properties"] = props
        if rng.random() < 0.5:
            d["required"] = rng.sample(NAMES, rng.choice([1, 2]))
        if rng.random() < 0.15:
            d["additionalProperties"] = gen_schema(rng, depth - 1, refs, allow)
    elif m < 0.45:
        if rng.random() < 0.6:
            d["items"] = gen_schema(rng, depth - 1, refs, allow)
        if rng.random() < 0.4:
            d["prefixItems"] = [gen_schema(rng, depth - 1, refs, allow) for _ in range(rng.choice([1, 2]))]
    k = rng.random()
    if k < 0.18 and "allOf" in allow:
        d["allOf"] = [gen_schema(rng, depth - 1, refs, allow) for _ in range(rng.choice([1, 2, 3]))]
    elif k < 0.33 and "anyOf" in allow:
        d["anyOf"] = [gen_schema(rng, depth - 1, refs, allow) for _ in range(rng.choice([1, 2, 3]))]
    elif k < 0.43 and "oneOf" in allow:
        d["oneOf"] = [gen_negatable(rng, depth - 1) for _ in range(rng.choice([1, 2, 2, 3]))]
    elif k < 0.53 and "not" in allow:
        d["not"] = gen_negatable(rng, depth - 1)
    elif k < 0.61 and "if" in allow:
        d["if"] = gen_negatable(rng, depth - 1)
        if rng.random() < 0.7:
            d["then"] = gen_schema(rng, depth - 1, refs, allow)
        if rng.random() < 0.6:
            d["else"] = gen_schema(rng, depth - 1, refs, allow)
        if len(d.keys() & {"then", "else"}) and rng.random() < 0.15:
            del d["if"]                                  # 'then' / 'else' without 'if': legal, and ignored
    elif k < 0.66 and "depreq" in allow:
        d["dependentRequired"] = {rng.choice(NAMES): rng.sample(NAMES, rng.choice([1, 2]))}
    elif k < 0.8 and refs and "ref" in allow:
        d["$ref"] = rng.choice(refs)
    return d


def gen_document(rng, depth=3, allow=("allOf", "anyOf", "oneOf", "not", "if", "depreq", "ref", "bool")):
    """a schema with $defs and (guarded) recursion"""
    n_defs = rng.choice([0, 0, 1, 2, 3])
    names = ["D%d" % i for i in range(n_defs)]
    refs = ["#/$defs/" + n for n in names]
    if rng.random() < 0.2:
        refs = refs + ["#"]
    doc = gen_schema(rng, depth, refs, allow)
    if not isinstance(doc, dict):
        return doc
    if names:
        defs = {}
        for n in names:
            s = gen_schema(rng, depth - 1, (), allow)
            if isinstance(s, dict) and rng.random() < 0.6 and refs:
                # guarded recursion: the reference sits below a property / item position
                pos = rng.choice(["properties", "items", "prefixItems"])
                r = ref_context(rng, {"$ref": rng.choice(refs)})
                if pos == "properties":
                    s.setdefault("properties", {})[rng.choice(NAMES)] = r
                elif pos == "items":
                    s["items"] = r
                else:
                    s["prefixItems"] = [r]
            defs[n] = s
        doc["$defs"] = defs
    return doc


def ref_context(rng, r):
    """the recursive reference below a guarded position, alone or inside a combinator"""
    m = rng.random()
    if m < 0.45:
        return r
    if m < 0.55:
        return {"anyOf": [r, gen_scalar_assertions(rng)]}
    if m < 0.65:
        return {"allOf": [r, gen_scalar_assertions(rng)]}
    if m < 0.75:
        return {"if": gen_negatable(rng, 0), "then": r, "else": gen_scalar_assertions(rng)}
    if m < 0.85:
        return {"if": gen_negatable(rng, 0), "else": r}
    if m < 0.93:
        d = gen_scalar_assertions(rng)
        d.update(r)
        return d
    return {"anyOf": [{"type": "null"}, {"allOf": [r]}]}


def gen_negated_recursion(rng):
    """recursion that passes through a property and through not / if: every schema on the cycle names one property
    and has no array keywords, so that its negation stays inside the dialect"""
    n_defs = rng.choice([0, 1, 2])
    names = ["D%d" % i for i in range(n_defs)]
    refs = ["#"] + ["#/$defs/" + n for n in names]

    def obj_schema():
        d = {}
        if rng.random() < 0.5:
            d["type"] = "object"
        n = rng.choice(NAMES)
        r = {"$ref": rng.choice(refs)}
        m = rng.random()
        if m < 0.4:
            x = {"not": r}
        elif m < 0.55:
            x = {"not": r, "type": rng.choice(["object", "null", ["object", "null"]])}
        elif m < 0.7:
            x = {"anyOf": [{"not": r}, {"type": rng.choice(["null", "string"])}]}
        elif m < 0.8:
            x = {"if": {"type": "object"}, "then": {"not": r}}
        elif m < 0.9:
            x = {"if": r, "then": {"type": "null"}}
        else:
            x = {"not": {"not": r}}
        d["properties"] = {n: x}
        if rng.random() < 0.4:
            d["required"] = [n]
        return d
    doc = obj_schema()
    if names:
        doc["$defs"] = {n: obj_schema() for n in names}
    return doc


def gen_self_conjunction(rng):
    """a recursive reference that meets itself: the same position (items, one property, a prefix item) is constrained
    by the referring schema and by its target, or by two conjuncts that both recurse"""
    r = {"$ref": "#"}
    pos = rng.choice(["items", "prop", "prefix"])

    def at(x):
        if pos == "items":
            return {"items": x}
        if pos == "prop":
            return {"properties": {"x": x}}
        return {"prefixItems": [x], "minItems": 0}
    m = rng.random()
    if m < 0.3:
        doc = {"allOf": [at(dict(r)), at(dict(r))]}
    elif m < 0.55:
        inner = at(dict(r))
        inner["$ref"] = "#"
        doc = at(inner)
    elif m < 0.8:
        doc = at({"allOf": [dict(r), at(dict(r))]})
    else:
        doc = at({"$ref": "#/$defs/D0"})
        d0 = at({"$ref": "#"})
        d0["$ref"] = "#/$defs/D0" if rng.random() < 0.3 else "#"
        doc["$defs"] = {"D0": d0}
    if rng.random() < 0.5:
        doc.update(gen_scalar_assertions(rng))
        doc.pop("enum", None)
        doc.pop("const", None)
    return doc


def _scalar_for(rng, group):
    d = {}
    if group == "number":
        if rng.random() < 0.6:
            d["type"] = rng.choice(["number", "integer"])
        for k in rng.sample(["minimum", "maximum", "exclusiveMinimum", "exclusiveMaximum", "multipleOf"], rng.choice([1, 2])):
            d[k] = rng.choice([1, 2, 3, 4, 6]) if k == "multipleOf" else rng.randint(-2, 9)
    elif group == "string":
        if rng.random() < 0.6:
            d["type"] = "string"
        for k in rng.sample(["minLength", "maxLength"], rng.choice([1, 2])):
            d[k] = rng.randint(0, 4)
    elif group == "enum":
        if rng.random() < 0.7:
            d["enum"] = rng.sample(["x", "y", 1, 2, 7, None, True, False, 0, "zz"], rng.choice([1, 2, 3, 4]))
        else:
            d["const"] = rng.choice(["x", 1, 7, None, False, 0])
            if rng.random() < 0.4:
                d["enum"] = rng.sample(["x", "y", 1, 2, 7, None, True, False, 0, "zz"], rng.choice([1, 2, 3]))
        if rng.random() < 0.3:
            d["type"] = rng.choice(TYPES)
    else:
        d["type"] = rng.choice(TYPES) if rng.random() < 0.6 else rng.sample(TYPES, rng.choice([1, 2, 3]))
    return d


def _small(rng):
    return _scalar_for(rng, rng.choice(["number", "string", "enum", "type"]))



def gen_ref_siblings(rng):
    """the same local reference at two places below properties / items / prefixItems / additionalProperties, once alone
    and once next to sibling keywords, in either order; also the recursive reference '#'
    (what is worked out for one use of a reference must not be served for the other)"""
    if rng.random() < 0.3:
        sib = rng.choice([{"required": ["left"]}, {"required": ["right"]}, {"minProperties": 1}, {"type": "object"}])
        strong, weak = dict({"$ref": "#"}, **sib), {"$ref": "#"}
        pair = [("left", weak), ("right", strong)] if rng.random() < 0.5 else [("left", strong), ("right", weak)]
        doc = {"type": "object", "properties": dict(pair)}
        return doc
    base = rng.choice([{"type": "number"}, {"type": "integer"}, {"type": "string"}, {"type": ["number", "string"]}, {}])
    if base.get("type") == "string":
        extra = rng.choice([{"minLength": 3}, {"maxLength": 2}, {"enum": ["a", "abcd"]}])
    else:
        extra = rng.choice([{"minimum": 10}, {"maximum": 4}, {"minimum": 2, "maximum": 6}, {"type": "number"}])
    strong, weak = dict({"$ref": "#/$defs/D"}, **extra), {"$ref": "#/$defs/D"}
    holder = rng.choice(["props", "props", "items", "prefix", "addl"])
    first, second = (weak, strong) if rng.random() < 0.5 else (strong, weak)
    if holder == "props":
        names = rng.sample(NAMES, 2)
        doc = {"type": "object", "properties": {names[0]: first, names[1]: second}}
    elif holder == "items":
        doc = {"type": "object", "properties": {"a": {"type": "array", "items": first}, "b": second}}
    elif holder == "prefix":
        doc = {"type": "array", "prefixItems": [first, second]}
    else:
        doc = {"type": "object", "properties": {"a": first}, "additionalProperties": second}
    doc["$defs"] = {"D": base}
    return doc


def gen_group_schema(rng, group):
    """one conjunct of the keyword group: the operands the merge functions of normalize.py meet"""
    if group == "object":
        d = {}
        if rng.random() < 0.3:
            d["type"] = "object"
        ks = rng.sample(["properties", "additionalProperties", "required"], rng.choice([1, 2, 2, 3]))
        if "properties" in ks:
            d["properties"] = {n: _small(rng) for n in rng.sample(NAMES, rng.choice([1, 2]))}
        if "additionalProperties" in ks:
            d["additionalProperties"] = _small(rng) if rng.random() < 0.75 else False
        if "required" in ks:
            d["required"] = rng.sample(NAMES, rng.choice([1, 2]))
        return d
    if group == "array":
        d = {}
        if rng.random() < 0.3:
            d["type"] = "array"
        ks = rng.sample(["items", "prefixItems", "minItems", "maxItems"], rng.choice([1, 2, 2, 3]))
        if "items" in ks:
            d["items"] = _small(rng) if rng.random() < 0.85 else False
        if "prefixItems" in ks:
            d["prefixItems"] = [_small(rng) if rng.random() < 0.8 else {} for _ in range(rng.choice([1, 2, 3]))]
        if "minItems" in ks:
            d["minItems"] = rng.randint(0, 3)
        if "maxItems" in ks:
            d["maxItems"] = rng.randint(0, 4)
        return d
    return _scalar_for(rng, group)


def gen_merge_doc(rng):
    """conjunctions of two or three schemas of one keyword group, in every syntactic form of a conjunction"""
    group = rng.choice(["object", "object", "array", "array", "number", "string", "enum", "type"])
    parts = [gen_group_schema(rng, group) for _ in range(rng.choice([2, 2, 3]))]
    form = rng.random()
    if form < 0.4:
        doc = {"allOf": parts}
    elif form < 0.6:
        doc = dict(parts[0])
        doc["allOf"] = parts[1:]
    elif form < 0.8:
        doc = dict(parts[1])
        doc["$ref"] = "#/$defs/D0"
        if len(parts) > 2:
            doc["allOf"] = parts[2:]
        doc["$defs"] = {"D0": parts[0]}
    elif form < 0.9:
        doc = {"allOf": [{"anyOf": [parts[0], _small(rng)]}] + parts[1:]}
    else:
        doc = {"properties": {"a": {"allOf": parts}}}
    return doc


def integral(v):
    if isinstance(v, float):
        return v == int(v)
    if isinstance(v, dict):
        return all(integral(x) for x in v.values())
    if isinstance(v, list):
        return all(integral(x) for x in v)
    return True


# ---------------------------------------------------------------------------------------------
def constants_of(schema, nums, lens, names, enums):
    if isinstance(schema, dict):
        for k, v in schema.items():
            if k in ("minimum", "maximum", "exclusiveMinimum", "exclusiveMaximum", "multipleOf", "NOT_multipleOf") and isinstance(v, (int, float)):
                nums.add(v)
            elif k in ("minLength", "maxLength", "minItems", "maxItems", "minContains") and isinstance(v, int):
                lens.add(v)
            elif k in ("enum", "NOT_enum") and isinstance(v, list):
                for x in v:
                    if not isinstance(x, (list, dict)):
                        enums.append(x)
            elif k == "const" and not isinstance(v, (list, dict)):
                enums.append(v)
            elif k in ("properties", "dependentRequired") and isinstance(v, dict):
                names.update(v.keys())
            elif k == "required" and isinstance(v, list):
                names.update(x for x in v if isinstance(x, str))
            constants_of(v, nums, lens, names, enums)
    elif isinstance(schema, list):
        for x in schema:
            constants_of(x, nums, lens, names, enums)


def instance_grid(schema, rng, limit=120):
    """instances on and next to every constant of the schema; arrays and objects get room of their own when the
    schema talks about them"""
    nums, lens, names, enums = set(), set(), set(), []
    constants_of(schema, nums, lens, names, enums)
    scal = [None, True, False, "", "string", 0, 1, -1, 42]
    for c in sorted(nums)[:8]:
        scal += [c - 1, c, c + 1, c * 2]
    for l in sorted(lens)[:5] + [0, 1]:
        for d in (-1, 0, 1):
            if l + d >= 0:
                scal.append("x" * (l + d))
    scal += enums[:8] + ["#", "##", "###"]
    txt = json.dumps(schema)
    has_arr = any('"%s"' % k in txt for k in ("items", "prefixItems", "minItems", "maxItems", "contains", "array"))
    has_obj = any('"%s"' % k in txt for k in ("properties", "required", "additionalProperties", "dependentRequired", "object"))

    def dedupe(xs, cap):
        seen, out = set(), []
        for x in xs:
            k = json.dumps(x, sort_keys=True) + type(x).__name__
            if k not in seen:
                seen.add(k)
                out.append(x)
        return out[:cap]
    S = dedupe(scal, 70)
    pool = S[:]
    names = sorted(names)[:3] or ["a"]
    A = []
    for l in sorted(lens)[:4] + [0, 1, 2]:
        for d in (-1, 0, 1):
            if 0 <= l + d <= 5:
                A.append([rng.choice(pool) for _ in range(l + d)])
    for L in range(0, 5):
        for _ in range(12 if has_arr else 2):
            A.append([rng.choice(pool) for _ in range(L)])
    O = []
    for _ in range(60 if has_obj else 12):
        obj = {}
        for n in names + ["zz"]:
            if rng.random() < 0.55:
                m = rng.random()
                obj[n] = rng.choice(pool) if m < 0.7 else ({rng.choice(names): rng.choice(pool)} if m < 0.85 else [rng.choice(pool)])
        O.append(obj)
    nested = []
    for _ in range(12):
        nested.append([rng.choice(O + A) for _ in range(rng.choice([1, 2, 3]))])
        o = {}
        for n in names:
            if rng.random() < 0.7:
                o[n] = rng.choice(O + A)
        nested.append(o)
    A = dedupe(A, 60 if has_arr else 10)
    O = dedupe(O, 60 if has_obj else 12)
    return S + A + O + dedupe(nested, 24)

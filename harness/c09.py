"""C09 (regex samples match; literals covered) and C20 (generate_random_string)."""
import random, json, re
import fences_env
from common import Check, run_driver
import regexes as R, graphs

fences_env.load()
from fences.core.exception import FencesException  # noqa: E402

VAR = "1 1 1"
FUEL = 900


def oracle_c09(ast):
    res = []
    pat = R.pr_regex(ast)
    if not R.supported(ast):
        return res
    from fences import parse_regex
    try:
        g = parse_regex(pat)
        entries = list(g.generate_paths())
        samples = [(e, g.execute(e.path)) for e in entries]
    except Exception as e:  # noqa
        return [("regex-raises", "pattern %r of the supported syntax raises %s" % (pat, graphs.err_str(e)))]
    try:
        cre = re.compile(pat)
    except re.error:
        return res
    for e, s in samples:
        if not e.is_valid:
            res.append(("sample-labelled-invalid", "pattern %r: sample %r is labelled invalid" % (pat, s)))
        if cre.fullmatch(s) is None:
            res.append(("sample-does-not-match", "pattern %r: generated string %r is not matched in full" % (pat, s)))
    flat = R.flat_items(ast)
    if flat and all(len(s) == len(flat) for _, s in samples):
        # per occurrence: position i of every string belongs to item i
        for i, it in enumerate(flat):
            want = [it[1]] if it[0] == 'C' else [x for c in it[1] for x in ([c[1]] if c[0] == 'c' else [c[1], c[2]])]
            for ch in want:
                if not any(s[i] == ch for _, s in samples):
                    res.append(("occurrence-not-used", "pattern %r: character %r of item %d (counted from 0) occurs at that place in no generated string %r" % (
                        pat, ch, i, [s for _, s in samples])))
                    return res
    joined = "".join(s for _, s in samples)
    for ch in R.literal_occurrences(ast):
        if ch not in joined:
            res.append(("literal-not-used", "pattern %r: character %r (literal / class member / range end) occurs in no generated string" % (pat, ch)))
            break
    return res


def oracle_c20(mn, mx, ast):
    from fences.core.random import generate_random_string, StringProperties
    pat = R.pr_regex(ast) if ast is not None else None
    if ast is not None and not R.supported(ast):
        return []
    try:
        s = generate_random_string(StringProperties(mn, mx, pat))
    except FencesException:
        return []
    except Exception as e:  # noqa
        return [("random-string-internal-error", "generate_random_string(min=%r, max=%r, pattern=%r) raises %s" % (mn, mx, pat, graphs.err_str(e)))]
    res = []
    if len(s) < mn or (mx is not None and len(s) > mx):
        res.append(("length-out-of-bounds", "generate_random_string(min=%r, max=%r, pattern=%r) returned %r of length %d" % (mn, mx, pat, s, len(s))))
    if pat is not None:
        try:
            if re.search(pat, s) is None:
                res.append(("pattern-not-contained", "generate_random_string(min=%r, max=%r, pattern=%r) returned %r which contains no match" % (mn, mx, pat, s)))
        except re.error:
            pass
    return res


def observe_c20(mn, mx, ast):
    from fences.core.random import generate_random_string, StringProperties
    pat = R.pr_regex(ast) if ast is not None else None
    try:
        return "str=ok:" + R.tok(generate_random_string(StringProperties(mn, mx, pat)))
    except Exception as e:  # noqa
        return "str=" + graphs.err_str(e)


def shrink_ast(ast, bad):
    """greedy structural shrinking: replace by sub-expressions while the predicate holds"""
    changed = True
    while changed:
        changed = False
        cands = []
        if ast[0] == 'A2':
            cands += [('A1', ast[1]), ast[2]]
        s = ast[1]
        if s[0] == 'S2':
            cands += [(ast[0], s[2]) + tuple(ast[2:]), (ast[0], ('S1', s[1])) + tuple(ast[2:])]
        it = s[1]
        if it[-1] is not None:
            cands.append((ast[0], (s[0], it[:-1] + (None,)) + tuple(s[2:])) + tuple(ast[2:]))
        if it[0] == 'G':
            cands.append(it[2])
        if it[0] == 'K' and len(it[1]) > 1:
            cands.append((ast[0], (s[0], ('K', it[1][1:], it[2])) + tuple(s[2:])) + tuple(ast[2:]))
            cands.append((ast[0], (s[0], ('K', it[1][:1], it[2])) + tuple(s[2:])) + tuple(ast[2:]))
        for c in cands:
            try:
                if bad(c):
                    ast = c
                    changed = True
                    break
            except Exception:  # noqa
                pass
    return ast


def run(pid, tier):
    ck = Check(pid, tier)
    if not ck.coq():
        ck.violation("coq-obligation", "coq/Properties/%s.v no longer checks: %s" % (pid, ck.obl["log"][-300:]),
                     {"theorem": ck.obl["file"]}, found_input=False)
    rng = random.Random(ck.seed * 389 + 29)
    n = 500 if tier == "quick" else 8000
    asts = []
    for _ in range(n):
        m = rng.random()
        asts.append(R.gen_delimited(rng) if m < 0.08 else R.gen_flat(rng) if m < 0.16 else R.gen_regex(rng, rng.choice([1, 2, 3]), allow_bad=True))
    hist = {"unsupported_by_contract": 0, "with_group": 0, "with_class": 0, "with_alt": 0, "with_open_range": 0}
    if pid == "C09":
        lines = [" ".join(["R"] + VAR.split() + [str(FUEL)] + R.enc_regex(a)) for a in asts]
        model = run_driver(lines)
        for a, m in zip(asts, model):
            pat = R.pr_regex(a)
            ck.count(pat, len(pat) >= 3)
            hist["unsupported_by_contract"] += not R.supported(a)
            hist["with_group"] += "(" in pat
            hist["with_class"] += "[" in pat
            hist["with_alt"] += "|" in pat
            hist["with_open_range"] += ",}" in pat or "*" in pat or "+" in pat
            impl, _ = R.observe_regex(pat)
            ck.cov["traces_validated_against_impl"] += 1
            if impl != m:
                ck.cov["disagreements_checked"] += 1
                small = shrink_ast(a, lambda c: R.observe_regex(R.pr_regex(c))[0] != run_driver([" ".join(["R"] + VAR.split() + [str(FUEL)] + R.enc_regex(c))])[0]) if ck.cov["disagreements_checked"] <= 2 else a
                ck.violation("correspondence-R", "model (coq/Regex.v) and regex/parse.py disagree on pattern %r" % R.pr_regex(small),
                             {"stream": "R", "pattern": R.pr_regex(small), "ast": small, "impl": impl[:500], "model": m[:500],
                              "theorem": "correspondence stream R"}, found_input=False)
            for sig, what in oracle_c09(a):
                small = shrink_ast(a, lambda c, sig=sig: any(s == sig for s, _ in oracle_c09(c))) if len(ck.violations) < 3 else a
                ck.violation(sig, what if small is a else [w for s, w in oracle_c09(small) if s == sig][0],
                             {"stream": "R", "pattern": R.pr_regex(small), "ast": small})
        ck.sample({"pattern": R.pr_regex(asts[0])})
        ck.sample({"pattern": R.pr_regex(asts[7])})
        ck.cov["rule"] = ("random ASTs of the C09 syntax (literals incl. punctuation and non-ASCII, capturing / non-capturing groups, alternation, positive "
                          "classes with members and ranges, ? * + {n} {n,} {n,m}, depth <= 3), a few with reversed bounds (must raise RegexException), printed to "
                          "concrete syntax and parsed by the implementation; distinct = pattern text, non-trivial = at least 3 characters")
        trusted = ["model of regex/parse.py from the AST: coq/Regex.v (tied by stream R: canonical graph dump, entries, samples)",
                   "the lark-generated parser and unescape() are modelled only through that correspondence",
                   "specification: Python re.fullmatch (oracle) / the relation matches in coq/Regex.v"]
    else:
        cases = []
        for a in asts[: n // 2]:
            for _ in range(2):
                mn = rng.choice([0, 0, 1, 2, 3, 5, 8])
                mx = rng.choice([None, None, mn, mn + 1, mn + 3, mn + 10])
                cases.append((mn, mx, a if rng.random() < 0.8 else None))
        for mn, mx in [(0, None), (3, 3), (2, 1), (0, 0), (7, None)]:
            cases.append((mn, mx, None))
            cases.append((mn, mx, asts[0]))
        lines = []
        for mn, mx, a in cases:
            lines.append(" ".join(["RS"] + VAR.split() + [str(FUEL), str(mn), str(-1 if mx is None else mx)] + (["1"] + R.enc_regex(a) if a is not None else ["0"])))
        model = run_driver(lines)
        for (mn, mx, a), m in zip(cases, model):
            ck.count(json.dumps([mn, mx, R.pr_regex(a) if a else None]), a is not None)
            in_contract = mx is None or mx >= mn
            impl = observe_c20(mn, mx, a)
            ck.cov["traces_validated_against_impl"] += 1
            hist["unsupported_by_contract"] += (a is not None and not R.supported(a)) or not in_contract
            if impl != m:
                ck.cov["disagreements_checked"] += 1
                ck.violation("correspondence-RS", "model (coq/Regex.v gen_random_string) and core/random.py disagree",
                             {"stream": "RS", "min": mn, "max": mx, "pattern": R.pr_regex(a) if a else None, "impl": impl, "model": m,
                              "theorem": "correspondence stream RS"}, found_input=False)
            if in_contract:
                for sig, what in oracle_c20(mn, mx, a):
                    ck.violation(sig, what, {"stream": "RS", "min": mn, "max": mx, "pattern": R.pr_regex(a) if a else None, "ast": a})
        ck.sample({"min": cases[0][0], "max": cases[0][1], "pattern": R.pr_regex(cases[0][2]) if cases[0][2] else None})
        ck.cov["rule"] = ("patterns of stream R x (min, max) around typical sample lengths, max absent / equal / larger, plus the contract-violating min > max "
                          "(correspondence only); distinct = (min, max, pattern), non-trivial = a pattern is given")
        trusted = ["model of core/random.py generate_random_string: coq/Regex.v (tied by stream RS)"]
    ck.notes["input_distribution"] = hist
    ck.assumptions = ["regex starts at the AST: parser / unescape tied by correspondence only"]
    if pid == "C09":
        return ck.finish(level="proof", trusted=trusted, explanation="theorem C09_language (coq/RegexLang.v: every complete execution of the graph built by the model of regex/parse.py yields a string in L(r), by structural induction over the AST with a frame / closed-region argument, through optimize() by C15_sem) and C09_entries; the model is tied to the implementation by printing random ASTs, parsing them with the real parser and comparing graph dumps, entries and samples; re.fullmatch / literal-coverage oracle on the implementation alone")
    return ck.finish(trusted=trusted)


def replay(pid, path):
    d = json.load(open(path))

    def tup(x):
        return tuple(tup(y) for y in x) if isinstance(x, list) else x
    ast = tup(d["ast"]) if d.get("ast") else None
    if ast is not None:
        # class member lists are lists in the AST
        def fix(i):
            return i
    res = oracle_c09(ast) if pid == "C09" else oracle_c20(d["min"], d["max"], ast)
    for sig, what in res:
        print("replayed: %s [%s]" % (what, sig))
    return 1 if res else 0

"""Import ifak/fences from the working tree of /repo (or $FENCES_REPO).

fences/regex/grammar.py is a build product (bin/generate.sh) that is git-ignored and absent
from the pinned tree.  We run the upstream build step (lark standalone) and install its
output *in memory* as module fences.regex.grammar; nothing is written into the repository.
"""
import os, sys, subprocess, types, importlib.util

REPO = os.environ.get("FENCES_REPO", "/repo")
_loaded = False


def _grammar_source():
    cache = os.environ.get("FENCES_GRAMMAR_CACHE")
    if cache and os.path.exists(cache) and os.path.getmtime(cache) >= os.path.getmtime(os.path.join(REPO, "bin", "regex.lark")):
        return open(cache).read()
    out = subprocess.run(
        [sys.executable, "-m", "lark.tools.standalone", os.path.join(REPO, "bin", "regex.lark")],
        check=True, capture_output=True, text=True, env={**os.environ, "PYTHONPATH": ""})
    if cache:
        try:
            with open(cache + ".tmp%d" % os.getpid(), "w") as f:
                f.write(out.stdout)
            os.replace(cache + ".tmp%d" % os.getpid(), cache)
        except OSError:
            pass
    return out.stdout


def load():
    """Make `import fences` work; idempotent."""
    global _loaded
    if _loaded:
        return
    if REPO in sys.path:
        sys.path.remove(REPO)
    sys.path.insert(0, REPO)
    for k in [k for k in sys.modules if k == "fences" or k.startswith("fences.")]:
        del sys.modules[k]
    gpath = os.path.join(REPO, "fences", "regex", "grammar.py")
    if not os.path.exists(gpath):
        # create the package skeleton by hand so that importing fences.regex does not
        # trigger fences/__init__ before the grammar module exists
        src = _grammar_source()
        pkg = types.ModuleType("fences")
        pkg.__path__ = [os.path.join(REPO, "fences")]
        pkg.__file__ = os.path.join(REPO, "fences", "__init__.py")
        sys.modules["fences"] = pkg
        rpkg = types.ModuleType("fences.regex")
        rpkg.__path__ = [os.path.join(REPO, "fences", "regex")]
        sys.modules["fences.regex"] = rpkg
        pkg.regex = rpkg
        mod = types.ModuleType("fences.regex.grammar")
        mod.__file__ = "<lark standalone of bin/regex.lark>"
        mod.__package__ = "fences.regex"
        sys.modules["fences.regex.grammar"] = mod
        exec(compile(src, mod.__file__, "exec"), mod.__dict__)
        rpkg.grammar = mod
        # now run the real fences/__init__.py in the prepared package module
        with open(pkg.__file__) as f:
            code = f.read()
        pkg.__package__ = "fences"
        exec(compile(code, pkg.__file__, "exec"), pkg.__dict__)
    else:
        import fences  # noqa
    _loaded = True
    sys.setrecursionlimit(int(os.environ.get("VERIF_RECLIMIT", "3000")))


def run_with_big_stack(fn, *args, stack_mb=512, reclimit=20000):
    """Run fn in a thread with a large stack so only genuine divergence is a RecursionError."""
    import threading
    threading.stack_size(stack_mb * 1024 * 1024)
    old = sys.getrecursionlimit()
    sys.setrecursionlimit(reclimit)
    box = {}

    def target():
        try:
            box["r"] = fn(*args)
        except BaseException as e:  # noqa
            box["e"] = e
    t = threading.Thread(target=target)
    t.start()
    t.join()
    sys.setrecursionlimit(old)
    threading.stack_size(0)
    if "e" in box:
        raise box["e"]
    return box.get("r")

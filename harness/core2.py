"""C14 (build / resolve linkage) and C15 (optimize) over hand-built graphs: streams G-res and G-opt."""
import random, json, itertools, copy
import graphs, fences_env, core
from common import Check, run_driver, limited, ImplTimeout

N = graphs.N
FUEL = 700


def dump_graph(nodes):
    out = []
    for n in nodes:
        if isinstance(n, N.Leaf):
            k = "L1" if n.is_valid else "L0"
        elif isinstance(n, N.Decision):
            k = "D%d%d" % (int(n.all_transitions), int(isinstance(n, N.NoOpDecision)))
        else:
            k = "R" + ("0" if n.reference == "" else n.reference[1:])
        outs = graphs.ints(t.target.k for t in n.outgoing_transitions) if isinstance(n, N.Decision) else ""
        ins = ",".join("%d.%d" % (i.source.k, i.outgoing_idx) for i in n.incoming_transitions)
        out.append("%d:%s:%s:%s" % (n.k, k, outs, ins))
    return ";".join(out)


# ---------------------------------------------------------------------------------------------
# G-res: graphs with Reference nodes
def ref_program(rng, max_nodes=9):
    """several sub-graphs (a root and 'definitions'), named nodes, references between them (chains,
    recursion), sometimes an unknown name or a duplicate id"""
    n = rng.randint(2, max_nodes)
    names = [1, 2, 3, 4]
    kinds = []
    used_ids = []
    for i in range(n):
        m = rng.random()
        idv = None
        if rng.random() < 0.45:
            idv = rng.choice(names) if rng.random() < 0.85 else 0        # 0 encodes '' (falsy)
            if idv in used_ids and idv != 0 and rng.random() < 0.85:
                idv = None                                               # duplicates are rare
            if idv:
                used_ids.append(idv)
        if i == 0 or m < 0.4:
            kinds.append(('D', rng.random() < 0.5, rng.random() < 0.5, idv))
        elif m < 0.7:
            nm = rng.choice(used_ids) if used_ids and rng.random() < 0.9 else rng.choice(names + [9])
            kinds.append(('R', nm, idv if rng.random() < 0.3 else None))
        else:
            kinds.append(('L', rng.random() < 0.7, idv))
    decs = [i for i, k in enumerate(kinds) if k[0] == 'D']
    edges = []
    n_roots = rng.choice([1, 2, 3])
    roots = [0] + [d for d in decs[1:]][: n_roots - 1]
    for i in range(1, n):
        if i in roots:
            continue
        cands = [d for d in decs if d < i] or decs
        edges.append((rng.choice(cands), i))
    for _ in range(rng.randint(0, 3)):
        s = rng.choice(decs)
        t = rng.randrange(1, n)
        if t not in roots:
            edges.append((s, t))
    rng.shuffle(edges)
    ops = kinds + [('T', s, t) for s, t in edges]
    extra = [r for r in roots[1:]]
    # sometimes resolve() is called on a Reference: the real root is the node it names
    if used_ids and rng.random() < 0.15:
        ops = ops + [('R', rng.choice(used_ids), None)]
        root_ref = len(kinds)
        return ops, root_ref, [0] + extra
    if rng.random() < 0.1 and n > 2:
        extra.append(rng.randrange(1, n))
    return ops, 0, extra


def run_resolve(ops, root, extra):
    nodes = graphs.build(ops)
    try:
        # a resolve() that loops (e.g. on a chain of references that the code follows iteratively) is an observation
        r = limited(1, nodes[root].resolve, [nodes[e] for e in extra])
    except ImplTimeout:
        return nodes, None, "py:does-not-return"
    except Exception as e:  # noqa
        return nodes, None, graphs.err_str(e)
    return nodes, r, None


def observe_resolve(ops, root, extra):
    nodes, r, err = run_resolve(ops, root, extra)
    if err:
        return "res=" + err
    return "res=ok:%d|graph=%s" % (r.k, dump_graph(nodes))


def expected_resolve(ops, root, extra):
    """independent statement of the contract: ('dup' | 'unknown' | 'cycle' | 'ok', detail)"""
    kinds, outs = graphs._tables(ops)

    def items(r):
        seen, order = set(), []

        def go(x):
            if x in seen:
                return
            seen.add(x)
            order.append(x)
            if kinds[x][0] == 'D':
                for t in outs[x]:
                    go(t)
        go(r)
        return order
    table = {}
    scanned = []
    for r in list(extra) + [root]:
        scanned += items(r)
    ident = {}
    for x in scanned:
        idv = kinds[x][-1]
        if idv:                             # truthy id
            if idv in ident:
                return ("dup", idv) if ident[idv] != x else ("same-node-twice", idv)
            ident[idv] = x
        table[idv] = x

    def deref(x, depth=0):
        if depth > 50:
            raise RecursionError()
        if kinds[x][0] != 'R':
            return x
        nm = kinds[x][1]
        if nm not in table:
            raise KeyError(nm)
        return deref(table[nm], depth + 1)
    # a Reference chain that leads back to itself is outside the contract, wherever the traversal meets it first
    for x in scanned:
        if kinds[x][0] == 'R':
            try:
                deref(x)
            except KeyError:
                pass
            except RecursionError:
                return ("cycle", None)
    try:
        r = deref(root)
        seen = set()
        st = [r]
        while st:
            x = st.pop()
            if x in seen:
                continue
            seen.add(x)
            if kinds[x][0] == 'D':
                for t in outs[x]:
                    st.append(deref(t))
    except KeyError as e:
        return ("unknown", e.args[0])
    except RecursionError:
        return ("cycle", None)
    return ("ok", r)


def oracle_c14(ops, root, extra):
    from fences.core.debug import check_consistency
    res = []
    exp = expected_resolve(ops, root, extra)
    nodes, r, err = run_resolve(ops, root, extra)
    if exp[0] in ("cycle", "same-node-twice"):
        return res
    kinds0, _ = graphs._tables(ops)
    if sum(1 for k in kinds0 if k[-1] == 0) > 1:
        return res          # several nodes with the empty string as id: not a name in the sense of C14
    if exp[0] in ("dup", "unknown"):
        if err != "lib:ResolveReference":
            res.append(("resolve-error-missing", "a name is %s (%r) but resolve() %s" % (
                "defined twice" if exp[0] == "dup" else "unknown", exp[1],
                "returned normally" if err is None else "raised " + err)))
        return res
    if err:
        res.append(("resolve-raises", "all names are defined once and known but resolve() raised %s" % err))
        return res
    try:
        check_consistency(r)
    except Exception as e:  # noqa
        res.append(("inconsistent-after-resolve", "check_consistency fails after resolve(): %s" % e))
    its = list(r.items())
    if any(isinstance(x, N.Reference) for x in its):
        res.append(("unresolved-reference", "a Reference node is still reachable after resolve()"))
    # every former reference target is replaced by the node it names
    kinds, outs = graphs._tables(ops)
    table = {}
    for rr in list(extra) + [root]:
        for x in [n.k for n in graphs.build(ops)[rr].items()]:
            table[kinds[x][-1]] = x

    def deref(x):
        while kinds[x][0] == 'R':
            x = table[kinds[x][1]]
        return x
    for x in its:
        if isinstance(x, N.Decision):
            want = [deref(t) for t in outs[x.k]]
            got = [t.target.k for t in x.outgoing_transitions]
            if want != got:
                res.append(("wrong-target", "node %d: children after resolve %s, expected %s" % (x.k, got, want)))
                break
    return res


# ---------------------------------------------------------------------------------------------
# G-opt: graphs with chains of NoOp decisions
def opt_program(rng, max_nodes=10):
    ops, root = graphs.random_program(rng, max_nodes, allow_bad=False)
    ops = [o for o in ops if o[0] != 'G']
    # stretch some edges into chains of do-nothing decisions
    kinds = [o for o in ops if o[0] != 'T']
    edges = [o for o in ops if o[0] == 'T']
    new_edges = []
    for (_, s, t) in edges:
        if rng.random() < 0.35:
            k = rng.choice([1, 1, 2, 3])
            prev = s
            for _ in range(k):
                kinds.append(('D', rng.random() < 0.5, rng.random() < 0.85, None))
                cur = len(kinds) - 1
                new_edges.append(('T', prev, cur))
                prev = cur
            new_edges.append(('T', prev, t))
        else:
            new_edges.append(('T', s, t))
    if rng.random() < 0.5:
        rng.shuffle(new_edges)
    return kinds + new_edges, root


def samples_upto(ops_tables, root, max_len, max_steps, noop):
    """all (sequence of side-effecting nodes applied, applies-an-invalid-leaf) of complete executions with
    at most max_len side-effecting nodes, explored with at most max_steps node visits per execution"""
    kinds, outs, alls = ops_tables
    found = set()

    def go(stack, seq, inv, steps, budget):
        if budget[0] <= 0:
            return
        budget[0] -= 1
        if not stack:
            found.add((tuple(seq), inv))
            return
        if steps > max_steps or len(seq) > max_len:
            return
        n = stack[0]
        rest = stack[1:]
        k = kinds[n]
        seq2 = seq if noop[n] else seq + [n]
        if k == 'L1' or k == 'L0':
            go(rest, seq2, inv or k == 'L0', steps + 1, budget)
        elif alls[n]:
            go(list(outs[n]) + rest, seq2, inv, steps + 1, budget)
        else:
            for t in outs[n]:
                go([t] + rest, seq2, inv, steps + 1, budget)
    budget = [60000]
    go([root], [], False, 0, budget)
    return found if budget[0] > 0 else None


def tables_of(nodes):
    kinds, outs, alls, noop = {}, {}, {}, {}
    for n in nodes:
        if isinstance(n, N.Leaf):
            kinds[n.k] = 'L1' if n.is_valid else 'L0'
            outs[n.k] = []
            alls[n.k] = False
            noop[n.k] = False
        elif isinstance(n, N.Decision):
            kinds[n.k] = 'D'
            outs[n.k] = [t.target.k for t in n.outgoing_transitions]
            alls[n.k] = n.all_transitions
            noop[n.k] = isinstance(n, N.NoOpDecision)
        else:
            kinds[n.k] = 'R'
            outs[n.k] = []
            alls[n.k] = False
            noop[n.k] = False
    return (kinds, outs, alls), noop


def oracle_c15(ops, root):
    try:
        return limited(6, _oracle_c15, ops, root)
    except ImplTimeout:
        return [("optimize-or-walk-hangs", "optimize(), items() or check_consistency does not return within 6 s on this graph")]


def _oracle_c15(ops, root):
    from fences.core.debug import check_consistency
    res = []
    nodes = graphs.build(ops)
    before_t, noop = tables_of(nodes)
    n_before = len(list(nodes[root].items()))
    try:
        nodes[root].optimize()
    except Exception as e:  # noqa
        return [("optimize-raises", "optimize() raised %s" % graphs.err_str(e))]
    after_t, _ = tables_of(nodes)
    n_after = len(list(nodes[root].items()))
    if n_after > n_before:
        res.append(("node-count-grows", "%d nodes before, %d after optimize()" % (n_before, n_after)))
    try:
        check_consistency(nodes[root])
    except Exception as e:  # noqa
        res.append(("inconsistent-after-optimize", "check_consistency fails after optimize(): %s" % e))
    L, S = 5, 14
    wide = S * (len(nodes) + 1)
    a_small = samples_upto(after_t, root, L, S, noop)
    b_small = samples_upto(before_t, root, L, S, noop)
    b_wide = samples_upto(before_t, root, L, wide, noop) if a_small is not None and b_small is not None else None
    a_wide = samples_upto(after_t, root, L, wide, noop) if b_wide is not None else None
    if a_wide is not None:
        lost = b_small - a_wide
        new = a_small - b_wide
        if lost:
            res.append(("sample-lost", "optimize() loses the sample %s (side-effecting nodes applied, applies an invalid leaf)" % (sorted(lost)[0],)))
        if new:
            res.append(("sample-added", "optimize() adds the sample %s" % (sorted(new)[0],)))
    return res


def strip_wf(line):
    return "|".join(x for x in line.split("|") if not x.startswith(("wf=", "prod=", "acyc=")))


def observe_opt(ops, root):
    try:
        return limited(6, _observe_opt, ops, root)
    except ImplTimeout:
        return "opt=timeout"


def _observe_opt(ops, root):
    nodes = graphs.build(ops)
    try:
        nodes[root].optimize()
    except Exception as e:  # noqa
        return "opt=" + graphs.err_str(e)
    return "opt=ok|graph=" + dump_graph(nodes) + "|" + graphs.observe_nodes(nodes, ops, root, [])


def run(pid, tier):
    ck = Check(pid, tier)
    if not ck.coq():
        ck.violation("coq-obligation", "coq/Properties/%s.v no longer checks: %s" % (pid, ck.obl["log"][-300:]),
                     {"theorem": ck.obl["file"]}, found_input=False)
    rng = random.Random(ck.seed * 977 + 11)
    stats = {}
    if pid == "C14":
        n = 1200 if tier == "quick" else 20000
        cases = [ref_program(rng, rng.choice([4, 6, 9])) for _ in range(n)]
        # plain built graphs too (first half of the property: add_transition keeps both ends in step)
        built = [graphs.random_program(rng, 8) for _ in range(n // 3)]
        lines = []
        for ops, root, extra in cases:
            lines.append(" ".join(["GR", str(FUEL), str(root)] + graphs.ops_tokens(ops) + [str(len(extra))] + [str(e) for e in extra]))
        model = run_driver(lines)

        def body():
            for (ops, root, extra), m in zip(cases, model):
                ck.count(json.dumps([ops, extra]), sum(1 for o in ops if o[0] == 'R') >= 1)
                exp = expected_resolve(ops, root, extra)[0]
                stats[exp] = stats.get(exp, 0) + 1
                impl = observe_resolve(ops, root, extra)
                ck.cov["traces_validated_against_impl"] += 1
                mm = "|".join(x for x in m.split("|") if not x.startswith("cons="))
                if impl != mm:
                    ck.cov["disagreements_checked"] += 1
                    ck.violation("correspondence-G-res", "model (coq/GraphOps.v resolve) and Node.resolve disagree",
                                 {"stream": "G-res", "ops": ops, "root": root, "extra": extra, "impl": impl[:600], "model": mm[:600],
                                  "theorem": "correspondence stream G-res"}, found_input=False)
                for sig, what in oracle_c14(ops, root, extra):
                    ck.violation(sig, what, {"stream": "G-res", "ops": ops, "root": root, "extra": extra})
            for ops, root in built:
                ops = [o for o in ops if o[0] != 'G']
                ck.count(json.dumps(ops), True)
                for sig, what, extra in core.oracle("C14", ops, root, []):
                    ck.violation(sig, what, {"stream": "G", "ops": ops, "root": root})
        fences_env.run_with_big_stack(body, reclimit=2600)
        # graphs returned by the five parsers: closure / linkage / ids on the implementation, and the model's
        # well-formedness checker (proved sufficient) on the dumped node table
        import frontends, regexes as RX
        fe = {}

        def front():
            lines, meta = [], []
            for name, what, root in frontends.graphs(rng, 150 if tier == "quick" else 3000):
                fe[name] = fe.get(name, 0) + 1
                ck.count(name + what, True)
                for sig, w in frontends.closure_problems(name, root):
                    ck.violation(sig + ":" + name, "%s graph for %s: %s" % (name, what[:200], w), {"stream": "front-ends", "front_end": name, "input": what})
                lines.append(RX.certify_line(root))
                meta.append((name, what))
            for (name, what), m in zip(meta, run_driver(lines)):
                if "wf=1" not in m or "cons=1" not in m:
                    ck.violation("not-well-formed:" + name, "%s graph for %s is not well-formed by the model's checker (%s)" % (name, what[:200], m),
                                 {"stream": "front-ends", "front_end": name, "input": what})
        fences_env.run_with_big_stack(front, reclimit=2600)
        def names():
            # the name clause at the grammar front end: a non-terminal defined twice (two NonTerminal objects with the same
            # name are two keys of the grammar dict) or used without a definition must end in the resolution exception
            import grammars as GM
            from fences import parse_grammar
            from fences.grammar.types import NonTerminal, Terminal, Alternative
            from fences.core.exception import ResolveReferenceException
            made = 0
            for _ in range(400):
                if made >= (24 if tier == "quick" else 400):
                    break
                g, start = GM.gen_grammar(rng)
                if not (GM.names_defined(g) and GM.productive(g)):
                    continue
                made += 1
                gr = GM.to_fences(g)
                kind = "duplicate" if made % 2 else "undefined"
                if kind == "duplicate":
                    nm = rng.choice([n for n, _ in g])
                    gr[NonTerminal("n%d" % nm)] = Terminal(rng.choice(["z", "0"]))
                else:
                    key = [k for k in gr if k.name == "n%d" % start][0]
                    gr[key] = Alternative([gr[key], NonTerminal("n999")])
                fe["grammar_" + kind] = fe.get("grammar_" + kind, 0) + 1
                ck.count("names" + kind + json.dumps(g), True)
                try:
                    limited(10, parse_grammar, gr, "n%d" % start)
                    out = "returned a graph"
                except ResolveReferenceException:
                    continue
                except ImplTimeout:
                    out = "did not return"
                except RecursionError:
                    out = "raised RecursionError"
                except Exception as e:  # noqa
                    out = "raised %s" % type(e).__name__
                ck.violation("resolve-error-missing:grammar-" + kind, "a grammar with a non-terminal that is %s: parse_grammar %s instead of raising ResolveReferenceException" % (
                    "defined twice" if kind == "duplicate" else "used but not defined", out),
                    {"stream": "front-ends", "front_end": "grammar", "names": kind, "rules": g, "start": start})
                break
        fences_env.run_with_big_stack(names, reclimit=2600)
        stats.update({"front_end_" + k: v for k, v in fe.items()})
        ck.sample({"ops": cases[0][0], "root": 0, "extra": cases[0][2]})
        ck.cov["rule"] = ("hand-built graphs with Reference nodes: 1-3 sub-graphs (root + definitions passed to resolve), ids from a small pool "
                          "(also '' and None), references with chains and recursion, rare unknown names and duplicate ids; plus plain API programs "
                          "checked with check_consistency; distinct = (ops, extra), non-trivial = at least one Reference")
    else:
        n = 800 if tier == "quick" else 12000
        cases = [opt_program(rng, rng.choice([4, 7, 10])) for _ in range(n)]
        lines = [" ".join(["GO", "1", "1", "1", str(FUEL), str(root)] + graphs.ops_tokens(ops)) for ops, root in cases]
        model = run_driver(lines)

        def body():
            for (ops, root), m in zip(cases, model):
                chains = sum(1 for o in ops if o[0] == 'D' and o[2])
                ck.count(json.dumps(ops), chains >= 1)
                stats["noop_nodes_%d" % min(chains, 4)] = stats.get("noop_nodes_%d" % min(chains, 4), 0) + 1
                impl = strip_wf(observe_opt(ops, root))
                m = strip_wf(m)
                ck.cov["traces_validated_against_impl"] += 1
                if impl != m:
                    ck.cov["disagreements_checked"] += 1
                    ck.violation("correspondence-G-opt", "model (coq/GraphOps.v optimize) and Decision.optimize disagree",
                                 {"stream": "G-opt", "ops": ops, "root": root, "impl": impl[:600], "model": m[:600],
                                  "theorem": "correspondence stream G-opt"}, found_input=False)
                for sig, what in oracle_c15(ops, root):
                    def still(o2, r2, sig=sig):
                        return any(s == sig for s, _ in oracle_c15(o2, r2))
                    small = core.shrink(ops, root, still) if len(ck.violations) < 2 else ops
                    ck.violation(sig, what, {"stream": "G-opt", "ops": small, "root": root})
        fences_env.run_with_big_stack(body, reclimit=2600)
        ck.sample({"ops": cases[0][0], "root": 0})
        ck.cov["rule"] = ("API programs as in stream G whose edges are stretched into chains of do-nothing decisions (length 1-3, do-all and choose-one "
                          "flags, sometimes a side-effecting decision in between, shuffled attachment order, cycles); samples compared before/after over all "
                          "complete executions with at most 5 side-effecting nodes; distinct = op list, non-trivial = at least one NoOp decision")
    ck.notes["input_distribution"] = stats
    ck.assumptions = ["CPython recursion limit not modelled", "cyclic chains of references (Reference -> Reference -> ...) are outside C14"]
    return ck.finish(trusted=["model of Node.resolve / Decision.optimize: coq/GraphOps.v (hand-written, tied by streams G-res / G-opt)"])


def replay(pid, path):
    d = json.load(open(path))
    ops = [tuple(o) for o in d["ops"]]
    if pid == "C14":
        res = oracle_c14(ops, d.get("root", 0), d.get("extra", [])) if "extra" in d else [(s, w) for s, w, _ in core.oracle("C14", ops, 0, [])]
    else:
        res = oracle_c15(ops, d.get("root", 0))
    for sig, what in res:
        print("replayed: %s [%s]" % (what, sig))
    return 1 if res else 0

"""Shared machinery of the checks: Coq obligations, model driver, evidence, replays, known findings."""
import os, sys, json, time, re, subprocess, hashlib, fcntl

VERIF = os.path.dirname(os.path.dirname(os.path.abspath(__file__)))
COQ = os.path.join(VERIF, "coq")
BUILD = os.path.join(VERIF, "build")
DRIVER = os.path.join(BUILD, "driver")

FORBIDDEN = re.compile(r"\b(Admitted|admit|Axiom|Parameter|Conjecture|Admit Obligations)\b|Unset Guard|bypass_check|type-in-type|impredicative-set")

KERNEL_TB = [
    "Coq 8.16.1 kernel (coqc, full .vo build via coq_makefile/make; no -vos/-vok; vm_compute used for closed witnesses, no native_compute)",
    "extraction: ExtrOcamlBasic directives only (bool/option/unit/prod/list/sumbool/sumor as OCaml types, andb/orb/negb/fst/snd inlined); nat/N/Z stay inductive; OCaml 4.13.1",
    "unverified glue: ocaml/driver.ml (case parser/printer), harness/*.py (generators, canonicalisers, oracles)",
]


def seed():
    try:
        return int(os.environ.get("VERIF_SEED", "0"))
    except ValueError:
        return 0


def strip_comments(src):
    out, depth, i = [], 0, 0
    while i < len(src):
        if src.startswith("(*", i):
            depth += 1
            i += 2
        elif src.startswith("*)", i) and depth:
            depth -= 1
            i += 2
        else:
            if not depth:
                out.append(src[i])
            i += 1
    return "".join(out)


def coq_sources():
    res = []
    for d in (COQ, os.path.join(COQ, "Properties")):
        for f in sorted(os.listdir(d)):
            if f.endswith(".v"):
                res.append(os.path.join(d, f))
    return res


def forbidden_vernacular():
    bad = []
    for f in coq_sources():
        m = FORBIDDEN.search(strip_comments(open(f).read()))
        if m:
            bad.append("%s: %s" % (os.path.relpath(f, VERIF), m.group(0)))
    return bad


class Lock:
    def __enter__(self):
        os.makedirs(BUILD, exist_ok=True)
        self.f = open(os.path.join(BUILD, ".lock"), "w")
        fcntl.flock(self.f, fcntl.LOCK_EX)
        return self

    def __exit__(self, *a):
        fcntl.flock(self.f, fcntl.LOCK_UN)
        self.f.close()


def build_all(pre_make=None):
    """(Re)build the Coq development and the driver if anything is out of date.
    Returns (ok, log)."""
    with Lock():
        if pre_make:
            pre_make()
        log = []
        if not os.path.exists(os.path.join(COQ, "Makefile")):
            subprocess.run(["coq_makefile", "-f", "_CoqProject", "-o", "Makefile"], cwd=COQ,
                           capture_output=True)
        p = subprocess.run("timeout 3000 make -j16 2>&1 | tail -60", shell=True, cwd=COQ,
                           capture_output=True, text=True)
        log.append(p.stdout)
        ok = "Error" not in p.stdout
        drv_src = [os.path.join(COQ, "model.ml"), os.path.join(VERIF, "ocaml", "driver.ml")]
        need = not os.path.exists(DRIVER) or any(
            os.path.exists(s) and os.path.getmtime(s) > os.path.getmtime(DRIVER) for s in drv_src)
        if need and os.path.exists(drv_src[0]):
            for s in (os.path.join(COQ, "model.ml"), os.path.join(COQ, "model.mli"), drv_src[1]):
                subprocess.run(["cp", s, BUILD])
            q = subprocess.run("timeout 900 ocamlfind ocamlopt -package unix -linkpkg -w -a model.mli model.ml driver.ml -o driver 2>&1 | tail -20",
                               shell=True, cwd=BUILD, capture_output=True, text=True)
            log.append(q.stdout)
            ok = ok and os.path.exists(DRIVER)
        return ok, "\n".join(log)


def property_obligations(pid):
    """Compile coq/Properties/<pid>.v (dependencies are built already) and read back what the
    kernel accepted: the theorem names and the Print Assumptions output of each."""
    vf = os.path.join(COQ, "Properties", pid + ".v")
    src = strip_comments(open(vf).read())
    names = re.findall(r"\b(?:Theorem|Lemma|Corollary|Example|Fact)\s+([A-Za-z0-9_']+)", src)
    t0 = time.time()
    with Lock():
        p = subprocess.run(["timeout", "900", "coqc", "-Q", ".", "Fences", vf], cwd=COQ,
                           capture_output=True, text=True)
    out = p.stdout + p.stderr
    ok = p.returncode == 0
    assumptions = re.findall(r"(Closed under the global context|Axioms:\n(?:.+\n)+)", out)
    closed = all(a.startswith("Closed") for a in assumptions)
    axioms = sorted(set(l.split(":")[0].strip() for a in assumptions if a.startswith("Axioms")
                        for l in a.split("\n")[1:] if l and not l.startswith(" ")))
    return {"file": os.path.relpath(vf, VERIF), "ok": ok, "theorems": names,
            "print_assumptions": len(assumptions), "closed": closed, "axioms": axioms,
            "log": out[-2000:] if not ok else "", "wall_s": round(time.time() - t0, 2),
            "cmd": "make -C coq (coq_makefile, full .vo) && coqc -Q coq Fences " + os.path.relpath(vf, VERIF)}


def run_driver(lines, timeout=3600):
    if not lines:
        return []
    p = subprocess.run([DRIVER], input="\n".join(lines) + "\n", capture_output=True, text=True,
                       timeout=timeout)
    out = p.stdout.split("\n")
    if out and out[-1] == "":
        out.pop()
    if len(out) != len(lines):
        out += ["error=driver-died:" + p.stderr[-200:]] * (len(lines) - len(out))
    return out


class ImplTimeout(BaseException):
    """the implementation did not return within the time limit of one case"""


def limited(seconds, fn, *args, **kw):
    """run fn under a wall-clock limit: an implementation that loops is an observation, not a hang of the check.
    Works in any thread (the checks run their bodies in a big-stack thread, where SIGALRM is not available): a trace
    function looks at the clock every few hundred line events and raises ImplTimeout in the running code."""
    import sys, time
    deadline = time.monotonic() + seconds
    count = [0]

    def tracer(frame, event, arg):
        count[0] += 1
        if count[0] % 400 == 0 and time.monotonic() > deadline:
            sys.settrace(None)
            raise ImplTimeout()
        return tracer
    old = sys.gettrace()
    sys.settrace(tracer)
    try:
        return fn(*args, **kw)
    finally:
        sys.settrace(old)


def json_corpus(pid):
    """documents on which earlier seeded changes were caught (corpus/json/<pid>/*.json), oldest name first"""
    d = os.path.join(VERIF, "corpus", "json", pid)
    out = []
    if os.path.isdir(d):
        for f in sorted(os.listdir(d)):
            if f.endswith(".json"):
                try:
                    out.append(json.load(open(os.path.join(d, f))))
                except Exception:  # noqa
                    pass
    return out


def known_findings():
    f = os.path.join(VERIF, "known_findings.json")
    if not os.path.exists(f):
        return {"known": [], "fixed": []}
    return json.load(open(f))


class Check:
    def __init__(self, pid, tier):
        self.pid = pid
        self.tier = tier
        self.seed = seed()
        self.t0 = time.time()
        self.violations = []          # dicts: sig, what, replay
        self.known_hits = {}
        self.cov = {"evaluations": 0, "distinct_nontrivial": 0, "samples": [], "rule": "",
                    "traces_validated_against_impl": 0, "disagreements_checked": 0}
        self.assumptions = []
        self.obl = None
        self._distinct = set()
        self.kf = known_findings()
        self.notes = {}

    # ---- coverage bookkeeping
    def count(self, canonical, nontrivial):
        self.cov["evaluations"] += 1
        if nontrivial:
            self._distinct.add(hashlib.sha1(canonical.encode()).digest()[:8])

    def sample(self, s, limit=5):
        if len(self.cov["samples"]) < limit:
            self.cov["samples"].append(s)

    # ---- reporting
    def replay_path(self, data):
        os.makedirs(os.path.join(VERIF, "replays"), exist_ok=True)
        h = hashlib.sha1(json.dumps(data, sort_keys=True, default=str).encode()).hexdigest()[:12]
        path = os.path.join(VERIF, "replays", "%s-%s.json" % (self.pid, h))
        with open(path, "w") as f:
            json.dump(data, f, indent=1, default=str)
        return path

    def violation(self, sig, what, data, found_input=True):
        """Report a violation unless the known-findings file lists its signature."""
        for k in self.kf.get("known", []):
            if k.get("property") == self.pid and k.get("signature") == sig:
                self.known_hits.setdefault(sig, what)
                return
        if any(v["sig"] == sig for v in self.violations) and len(self.violations) >= 3:
            return
        data = dict(data)
        data.update({"property": self.pid, "signature": sig, "what": what, "seed": self.seed,
                     "kind": "input" if found_input else "broken-obligation"})
        self.violations.append({"sig": sig, "what": what, "replay": self.replay_path(data),
                                "found_input": found_input})

    def finish(self, level="proof", trusted=(), explanation=None):
        for sig, what in sorted(self.known_hits.items()):
            print("KNOWN-FINDING: property=%s %s [%s]" % (self.pid, what, sig))
        # broken obligations / correspondence without a failing input are reported last
        concrete = [v for v in self.violations if v["found_input"]]
        broken = [v for v in self.violations if not v["found_input"]]
        report = concrete[:1] if concrete else broken[:1]
        cov = dict(self.cov)
        cov["distinct_nontrivial"] = len(self._distinct)
        if self.obl is not None:
            n = len(self.obl["theorems"])
            cov["obligations"] = max(n, 1)
            cov["discharged"] = n if self.obl["ok"] else 0
            cov["checker_cmd"] = self.obl["cmd"]
            cov["theorems"] = self.obl["theorems"]
            cov["print_assumptions"] = ("all closed under the global context" if self.obl["closed"]
                                        else "axioms: " + ", ".join(self.obl["axioms"]))
        cov["trusted_base"] = KERNEL_TB + list(trusted)
        if explanation:
            cov["explanation"] = explanation
        cov.update(self.notes)
        ev = {"property_id": self.pid, "tier": self.tier, "seed": self.seed, "level": level,
              "coverage": cov, "assumptions": self.assumptions,
              "wall_s": round(time.time() - self.t0, 2), "violations": len(self.violations),
              "known_findings_seen": sorted(self.known_hits)}
        os.makedirs(os.path.join(VERIF, "evidence"), exist_ok=True)
        with open(os.path.join(VERIF, "evidence", self.pid + ".json"), "w") as f:
            json.dump(ev, f, indent=1, default=str)
        for v in report:
            tail = "" if v["found_input"] else " no-failing-input-found"
            print("VIOLATION property=%s replay=%s%s" % (self.pid, v["replay"], tail))
        if self.violations:
            for v in self.violations[:5]:
                print("  detail: %s [%s]" % (v["what"], v["sig"]))
        return 1 if self.violations else 0

    # ---- Coq side
    def coq(self, pre_make=None):
        bad = forbidden_vernacular()
        ok, log = build_all(pre_make)
        self.obl = property_obligations(self.pid)
        if bad:
            self.obl["ok"] = False
            self.violation("forbidden-vernacular", "forbidden vernacular: " + "; ".join(bad),
                           {"theorem": "all"}, found_input=False)
        if not ok:
            self.notes["build_log"] = log[-1500:]
        return ok and self.obl["ok"] and not bad

"""Stream R: random regex ASTs of the C09 dialect, printed to concrete syntax for the implementation,
encoded as tokens for the extracted model; canonical dump of front-end graphs."""
import random, re
import fences_env

fences_env.load()
from fences.core import node as N  # noqa: E402
import graphs  # noqa: E402

META = set("\\^$.|?*+()[]{}-")
LITERALS = "abcxyz019_ ,;:!#%&'\"/<=>@~`AZéλ"


def tok(s):
    return "S" + "-".join(str(ord(c)) for c in s)


# AST: regex = ('A1', sub) | ('A2', sub, regex); sub = ('S1', item) | ('S2', item, sub)
# item = ('C', ch, q) | ('K', [citem...], q) | ('G', noncap, regex, q); citem = ('c', ch) | ('r', a, b)
# q = None | '*' | '+' | '?' | ('e', n) | ('a', n) | ('b', n, m)
def gen_quant(rng, allow_bad=False, big=True):
    m = rng.random()
    if m < 0.5:
        return None
    if m < 0.6:
        return '*'
    if m < 0.7:
        return '+'
    if m < 0.8:
        return '?'
    n = rng.choice([0, 1, 2, 3])
    if big and rng.random() < 0.06:
        n = rng.choice([17, 20, 32])          # counts well above any small unrolling limit
    k = rng.random()
    if k < 0.35:
        return ('e', n)
    if k < 0.6:
        return ('a', n)
    mm = n + rng.choice([0, 1, 2])
    if allow_bad and rng.random() < 0.1:
        mm = max(0, n - 1)
    return ('b', n, mm)


def gen_char(rng):
    return rng.choice(LITERALS)


def gen_citem(rng, allow_bad=False):
    if rng.random() < 0.55:
        return ('c', gen_char(rng))
    a, b = sorted([rng.choice("abcdefmz059AQ"), rng.choice("abcdefmz059AQ")])
    if allow_bad and rng.random() < 0.08:
        a, b = b, a
    return ('r', a, b)


def gen_item(rng, depth, allow_bad=False, big=True):
    # large counts only on characters and classes that are not inside a repeated group: the unrolled graph stays small
    m = rng.random()
    if m < 0.5 or depth <= 0:
        return ('C', gen_char(rng), gen_quant(rng, allow_bad, big))
    if m < 0.72:
        return ('K', [gen_citem(rng, allow_bad) for _ in range(rng.choice([1, 1, 2, 3]))], gen_quant(rng, allow_bad, big))
    q = gen_quant(rng, allow_bad, False)
    return ('G', rng.random() < 0.4, gen_regex(rng, depth - 1, allow_bad, big and q in (None, '?')), q)


def gen_sub(rng, depth, allow_bad=False, big=True):
    n = rng.choice([1, 1, 2, 3])
    items = [gen_item(rng, depth, allow_bad, big) for _ in range(n)]
    s = ('S1', items[-1])
    for it in reversed(items[:-1]):
        s = ('S2', it, s)
    return s


def gen_regex(rng, depth=3, allow_bad=False, big=True):
    n = rng.choice([1, 1, 1, 2, 3])
    subs = [gen_sub(rng, depth, allow_bad, big) for _ in range(n)]
    r = ('A1', subs[-1])
    for s in reversed(subs[:-1]):
        r = ('A2', s, r)
    return r


def seq_of(items):
    s = ('S1', items[-1])
    for it in reversed(items[:-1]):
        s = ('S2', it, s)
    return ('A1', s)


def gen_delimited(rng):
    """a bounded repetition {n,m} with 1 <= n < m between two literals: a surplus or a missing copy cannot hide"""
    n = rng.choice([1, 1, 2])
    m = n + rng.choice([1, 1, 2])
    k = rng.random()
    if k < 0.4:
        mid = ('C', gen_char(rng), ('b', n, m))
    elif k < 0.7:
        mid = ('K', [gen_citem(rng) for _ in range(rng.choice([1, 2]))], ('b', n, m))
    else:
        mid = ('G', rng.random() < 0.4, seq_of([('C', gen_char(rng), None) for _ in range(rng.choice([1, 2]))]), ('b', n, m))
    return seq_of([('C', rng.choice("xyz<"), None), mid, ('C', rng.choice("uvw>"), None)])


def gen_flat(rng):
    """a plain sequence of literals and classes without quantifiers, with the same class text at several places:
    position i of every generated string belongs to item i, so coverage can be judged per occurrence"""
    cls = [gen_citem(rng) for _ in range(rng.choice([2, 2, 3]))]
    items = []
    for _ in range(rng.choice([2, 3, 4])):
        items.append(('K', list(cls), None) if rng.random() < 0.65 else ('C', gen_char(rng), None))
    return seq_of(items)


def flat_items(r):
    """the items of a plain sequence (no alternation, no group, no quantifier), else None"""
    if r[0] != 'A1':
        return None
    out, s = [], r[1]
    while True:
        it = s[1]
        if it[0] not in ('C', 'K') or it[-1] is not None:
            return None
        out.append(it)
        if s[0] == 'S1':
            return out
        s = s[2]


def pr_q(q):
    if q is None:
        return ""
    if isinstance(q, str):
        return q
    if q[0] == 'e':
        return "{%d}" % q[1]
    if q[0] == 'a':
        return "{%d,}" % q[1]
    return "{%d,%d}" % (q[1], q[2])


def pr_item(i):
    if i[0] == 'C':
        return i[1] + pr_q(i[2])
    if i[0] == 'K':
        return "[" + "".join(c[1] if c[0] == 'c' else "%s-%s" % (c[1], c[2]) for c in i[1]) + "]" + pr_q(i[2])
    return "(" + ("?:" if i[1] else "") + pr_regex(i[2]) + ")" + pr_q(i[3])


def pr_sub(s):
    return pr_item(s[1]) + (pr_sub(s[2]) if s[0] == 'S2' else "")


def pr_regex(r):
    return pr_sub(r[1]) + ("|" + pr_regex(r[2]) if r[0] == 'A2' else "")


def enc_q(q):
    if q is None:
        return ["n"]
    if isinstance(q, str):
        return [q]
    return [q[0]] + [str(x) for x in q[1:]]


def enc_item(i):
    if i[0] == 'C':
        return ["C", str(ord(i[1]))] + enc_q(i[2])
    if i[0] == 'K':
        t = ["K", str(len(i[1]))]
        for c in i[1]:
            t += ["c", str(ord(c[1]))] if c[0] == 'c' else ["r", str(ord(c[1])), str(ord(c[2]))]
        return t + enc_q(i[2])
    return ["G", str(int(i[1]))] + enc_regex(i[2]) + enc_q(i[3])


def enc_sub(s):
    return [s[0]] + enc_item(s[1]) + (enc_sub(s[2]) if s[0] == 'S2' else [])


def enc_regex(r):
    return [r[0]] + enc_sub(r[1]) + (enc_regex(r[2]) if r[0] == 'A2' else [])


def literal_occurrences(r, acc=None):
    """every literal / class member / range end of the AST"""
    acc = [] if acc is None else acc

    def item(i):
        q = i[-1]
        if isinstance(q, tuple) and ((q[0] == 'e' and q[1] == 0) or (q[0] == 'b' and q[2] == 0)):
            return          # x{0}: no matching string contains x
        if i[0] == 'C':
            acc.append(i[1])
        elif i[0] == 'K':
            for c in i[1]:
                acc.extend([c[1]] if c[0] == 'c' else [c[1], c[2]])
        else:
            literal_occurrences(i[2], acc)

    def sub(s):
        item(s[1])
        if s[0] == 'S2':
            sub(s[2])
    sub(r[1])
    if r[0] == 'A2':
        literal_occurrences(r[2], acc)
    return acc


def supported(r):
    """quantifier bounds ordered, ranges ordered (else the library raises RegexException by contract)"""
    ok = [True]

    def q_ok(q):
        if isinstance(q, tuple) and q[0] == 'b' and q[1] > q[2]:
            ok[0] = False

    def item(i):
        q_ok(i[-1])
        if i[0] == 'K':
            for c in i[1]:
                if c[0] == 'r' and ord(c[1]) > ord(c[2]):
                    ok[0] = False
        elif i[0] == 'G':
            walk(i[2])

    def sub(s):
        item(s[1])
        if s[0] == 'S2':
            sub(s[2])

    def walk(rr):
        sub(rr[1])
        if rr[0] == 'A2':
            walk(rr[2])
    walk(r)
    return ok[0]


# ---- canonical dump of an implementation graph (any front end) ---------------------------------
def kind_str(n):
    if isinstance(n, N.Leaf):
        return "L1" if n.is_valid else "L0"
    if isinstance(n, N.Decision):
        return "D%d%d" % (int(n.all_transitions), int(isinstance(n, N.NoOpDecision)))
    return "R"


def dump_canon(root, payload):
    try:
        its = list(root.items())
    except RecursionError:
        return "fuel"
    num = {id(n): i for i, n in enumerate(its)}

    def c(n):
        return str(num[id(n)]) if id(n) in num else "x"
    parts = []
    for n in its:
        outs = ".".join(c(t.target) for t in n.outgoing_transitions) if isinstance(n, N.Decision) else ""
        ins = ",".join("%s.%d" % (c(i.source), i.outgoing_idx) for i in n.incoming_transitions)
        parts.append("%s:%s:%s:%s:%s" % (c(n), kind_str(n), payload(n), outs, ins))
    return "ok:" + ";".join(parts), num


def regex_payload(n):
    from fences.regex import parse as P
    if isinstance(n, P.AppendCharsLeaf):
        return tok(n.char)
    if isinstance(n, P.CreateInputNode):
        return "I"
    if isinstance(n, P.FetchOutputNode):
        return "O"
    return "-"


def observe_regex(pattern):
    from fences import parse_regex
    try:
        g = parse_regex(pattern)
    except Exception as e:  # noqa
        return "parse=" + graphs.err_str(e), []
    dump, num = dump_canon(g, regex_payload)
    out = ["graph=" + dump]
    entries, status, samples = [], "ok:", []
    try:
        for e in g.generate_paths():
            entries.append(e)
    except Exception as ex:  # noqa
        status = graphs.err_str(ex)
    out.append("entries=" + ";".join("%d/%s/%d" % (num.get(id(e.target), -1), graphs.ints(e.path), int(e.is_valid)) for e in entries))
    out[-1] += "|status=" + status
    strs = []
    for e in entries:
        try:
            s = g.execute(e.path)
            strs.append(s)
            samples.append("ok:" + tok(s))
        except Exception as ex:  # noqa
            strs.append(None)
            samples.append(graphs.err_str(ex))
    out.append("samples=" + ";".join(samples))
    return "|".join(out), list(zip(entries, strs))


def certify_line(root):
    """node table of the graph reachable from root, for stream W (None if a link leaves the reachable part)"""
    its = list(root.items())
    num = {id(n): i for i, n in enumerate(its)}
    toks = ["W", "0", str(len(its))]
    for n in its:
        if isinstance(n, N.Leaf):
            k = 1 if n.is_valid else 0
        elif isinstance(n, N.Decision):
            k = 2 + (1 if isinstance(n, N.NoOpDecision) else 0) + (2 if n.all_transitions else 0)
        else:
            k = 6
        outs = [num.get(id(t.target), 10 ** 6) for t in n.outgoing_transitions] if isinstance(n, N.Decision) else []
        ins = [(num.get(id(i.source), 10 ** 6), i.outgoing_idx) for i in n.incoming_transitions]
        toks += [str(k), str(len(outs))] + [str(o) for o in outs] + [str(len(ins))] + [str(x) for p in ins for x in p]
    return " ".join(toks)

"""C18: the OpenAPI sample cache is transparent.
Stream O: random descriptions (operations sharing parameter and body schemas) x call histories of
generate_all / generate_one_valid with and without overrides, on one shared SampleCache.
Oracle: every call compared with the same call on a fresh SampleCache().
Correspondence: the extracted cache model (coq/OpenApi.v), fed with the pipeline results per
(schema text, is_body) as its [compute] table, must produce the same per-call plans."""
import random, json, copy, itertools
import fences_env
from common import Check, run_driver
import oagen, graphs

fences_env.load()
from fences.open_api.open_api import OpenApi, ParameterPosition  # noqa: E402
from fences.open_api import generate as G  # noqa: E402
from fences.core.exception import FencesException  # noqa: E402

VARIANT_FIX = 1
POS = {"query": 0, "header": 1, "path": 2, "cookie": 3}
CODES = ['ResolveReference', 'Internal', 'Normalization', 'JsonPointer', 'JsonSchema', 'Regex', 'Grammar',
         'XmlSchema', 'OpenApi', 'Config', 'IndexError', 'KeyError', 'AttributeError', 'AssertionError',
         'TypeError', 'ValueError', 'NotImplementedError', 'Other']


class Intern:
    def __init__(self):
        self.t = {}

    def __call__(self, text):
        return self.t.setdefault(text, len(self.t))


def jtext(v):
    try:
        return json.dumps(v, sort_keys=True)
    except TypeError:
        return repr(v)


def dump_all(graph, op, names, vals):
    """canonical content of the graph returned by generate_all (groups follow op.parameters, then the body)"""
    groups = []
    for gi, t in enumerate(graph.outgoing_transitions):
        node = t.target
        if not hasattr(node, "outgoing_transitions"):
            continue                     # the single NoOpLeaf of an operation without parameters and body
        omit, valid, invalid = "-", [], []
        if gi < len(op.parameters):
            p = op.parameters[gi]
            who = "%s.%s" % (names(p.name), p.position.value)
        else:
            who = "body"
        for tt in node.outgoing_transitions:
            leaf = tt.target
            if isinstance(leaf, G.InsertParamLeaf):
                if leaf.parameter is not op.parameters[gi]:
                    who += "!wrong-parameter"
                (valid if leaf.is_valid else invalid).append(vals(jtext(leaf.raw_value)))
            elif isinstance(leaf, G.InsertBodyLeaf):
                (valid if leaf.is_valid else invalid).append(vals(jtext(leaf.body)))
            else:
                omit = "1" if leaf.is_valid else "0"
        groups.append("%s/o%s/v%s/i%s" % (who, omit, graphs.ints(valid), graphs.ints(invalid)))
    return groups


def call_all(op, cache, ov, names, vals, extra=None):
    try:
        g = G.generate_all(op, cache, ov) if ov is not None else G.generate_all(op, cache)
    except Exception as e:  # noqa
        return graphs.err_str(e)
    return "ok:" + ";".join(dump_all(g, op, names, vals)) + (extra(g, op, names, vals) if extra else "")


def call_one(op, cache, ow, names, vals):
    try:
        r = G.generate_one_valid(op, cache, ow) if ow is not None else G.generate_one_valid(op, cache)
    except Exception as e:  # noqa
        return graphs.err_str(e)
    # Request holds formatted values; recover (param, raw) pairs by re-deriving them is not possible,
    # so observe the storages
    parts = []
    for p in op.parameters:
        store = {ParameterPosition.QUERY: r.query_parameters, ParameterPosition.HEADER: r.headers,
                 ParameterPosition.PATH: r.path_parameters, ParameterPosition.COOKIE: r.cookies}[p.position]
        parts.append("%s.%s=%s" % (names(p.name), p.position.value, vals(jtext(store.get(p.name, None)))))
    return "ok:" + ";".join(parts) + "/b" + ("-" if r.body is None else str(vals(jtext(r.body))))


def fresh_ops(desc):
    return list(OpenApi.from_dict(copy.deepcopy(desc)).operations.values())


def gen_history(rng, desc, n_calls):
    ops = fresh_ops(desc)
    h = []
    for _ in range(n_calls):
        oi = rng.randrange(len(ops))
        if rng.random() < 0.75:
            h.append(("all", oi, oagen.overrides(rng, ops[oi], arrays=True) if rng.random() < 0.6 else None))
        else:
            h.append(("one", oi, oagen.overwrites(rng, ops[oi]) if rng.random() < 0.6 else None))
    return h


def run_history(desc, h, shared=True):
    """returns per-call observations; shared=False uses a fresh cache (and fresh operations) per call"""
    names, vals = Intern(), Intern()
    ops = fresh_ops(desc)
    cache = G.SampleCache()
    out = []
    for kind, oi, o in h:
        if not shared:
            cache = G.SampleCache()
            ops = fresh_ops(desc)
        o2 = copy.deepcopy(o)
        if kind == "all":
            out.append(call_all(ops[oi], cache, o2, lambda s: s, lambda s: s))
        else:
            out.append(call_one(ops[oi], cache, o2, lambda s: s, lambda s: s))
    return out


def isolated_groups(op, ov):
    """what generate_all must contain per group when every sample list is computed on its own, with the flag of its use"""
    groups = []
    for p in op.parameters:
        s = G.SampleCache().add(copy.deepcopy(p.schema), False)
        valid = (ov or {}).get(p.name, s.valid)
        omit = "-" if p.position == ParameterPosition.PATH else ("0" if p.required else "1")
        groups.append("%s.%s/o%s/v%s/i%s" % (p.name, p.position.value, omit, graphs.ints(jtext(v) for v in valid), graphs.ints(jtext(v) for v in s.invalid)))
    if op.request_body:
        s = G.SampleCache().add(copy.deepcopy(op.request_body.schema), True)
        groups.append("body/o%s/v%s/i%s" % ("0" if op.request_body.required else "1", graphs.ints(jtext(v) for v in s.valid), graphs.ints(jtext(v) for v in s.invalid)))
    return "ok:" + ";".join(groups)


def oracle(desc, h):
    a = run_history(desc, h, shared=True)
    b = run_history(desc, h, shared=False)
    res = []
    ops = fresh_ops(desc)
    for i, (kind, oi, o) in enumerate(h):
        if kind == "all" and a[i].startswith("ok:"):
            try:
                want = isolated_groups(ops[oi], o)
            except Exception:  # noqa
                continue
            if want != a[i]:
                res.append(("body-parameter-mixup", "call %d (generate_all on op %d): groups %s, but computing every sample list on its own (parameters with is_body=False, "
                            "the body with is_body=True) gives %s" % (i, oi, a[i][:300], want[:300]), {"call": i}))
                return res
    for i, (x, y) in enumerate(zip(a, b)):
        if x != y:
            res.append(("cache-not-transparent", "call %d (%s on op %d, overrides %r): with the used cache %s, with a fresh cache %s" % (
                i, h[i][0], h[i][1], h[i][2], x[:200], y[:200]), {"call": i}))
            break
    return res


def model_line(desc, h, stream=None, extra=None):
    """encode description + history for the extracted model; returns (line, expected impl observations)"""
    names, vals, keys = Intern(), Intern(), Intern()
    ops = fresh_ops(desc)
    comp = {}

    def need(schema, is_body):
        k = keys(json.dumps(schema))
        if (k, is_body) in comp:
            return k
        try:
            s = G.SampleCache().add(copy.deepcopy(schema), is_body)
            comp[(k, is_body)] = ("ok", [vals(jtext(v)) for v in s.valid], [vals(jtext(v)) for v in s.invalid])
        except Exception as e:  # noqa
            es = graphs.err_str(e)
            kind = 1 if es.startswith("lib:") else 2
            name = es.split(":", 1)[1] if ":" in es else "Other"
            comp[(k, is_body)] = ("err", kind, CODES.index(name) if name in CODES else 17)
        return k
    toks_ops = [str(len(ops))]
    for i, op in enumerate(ops):
        toks_ops += [str(i), str(len(op.parameters))]
        for p in op.parameters:
            toks_ops += [str(names(p.name)), str(POS[p.position.value]), str(int(p.required)), str(need(p.schema, 0))]
        if op.request_body:
            toks_ops += ["1", str(need(op.request_body.schema, 1)), str(int(op.request_body.required))]
        else:
            toks_ops += ["0"]
    toks_calls = [str(len(h))]
    for kind, oi, o in h:
        o = o or {}
        toks_calls += ["0" if kind == "all" else "1", str(oi), str(len(o))]
        for name, v in o.items():
            if kind == "all":
                toks_calls += [str(names(name)), str(len(v))] + [str(vals(jtext(x))) for x in v]
            else:
                toks_calls += [str(names(name)), str(vals(jtext(v)))]
    toks_comp = [str(len(comp))]
    for (k, b), r in comp.items():
        if r[0] == "ok":
            toks_comp += [str(k), str(b), "0", "0", str(len(r[1]))] + [str(x) for x in r[1]] + [str(len(r[2]))] + [str(x) for x in r[2]]
        else:
            toks_comp += [str(k), str(b), str(r[1]), str(r[2])]
    line = " ".join((stream or ["O"]) + [str(VARIANT_FIX)] + toks_comp + toks_ops + toks_calls)
    # implementation, same interning
    cache = G.SampleCache()
    impl = []
    for kind, oi, o in h:
        o2 = copy.deepcopy(o)
        if kind == "all":
            impl.append(call_all(ops[oi], cache, o2, names, vals, extra))
        else:
            impl.append(call_one_model_view(ops[oi], cache, o2, names, vals))
    return line, " # ".join(impl)


def call_one_model_view(op, cache, ow, names, vals):
    """generate_one_valid observed as (parameter, raw sample) pairs: the raw sample is recovered by
    formatting candidates, so we compare the *formatted* storages instead: the model's raw sample id is
    mapped through format_parameter_value on the Python side."""
    from fences.open_api.format import format_parameter_value
    try:
        r = G.generate_one_valid(op, cache, ow) if ow is not None else G.generate_one_valid(op, cache)
    except Exception as e:  # noqa
        return graphs.err_str(e)
    return ("raw", r, op)


def run(pid, tier):
    ck = Check(pid, tier)
    if not ck.coq():
        ck.violation("coq-obligation", "coq/Properties/C18.v no longer checks: %s" % ck.obl["log"][-300:],
                     {"theorem": ck.obl["file"]}, found_input=False)
    rng = random.Random(ck.seed * 101 + 3)
    n_desc = 40 if tier == "quick" else 400
    stats = {"calls": 0, "with_overrides": 0, "generate_one_valid": 0, "ops_with_body": 0, "error_calls": 0}
    lines, expect, meta = [], [], []
    for d in range(n_desc):
        desc = oagen.description(rng, rng.choice([2, 3, 4]), arrays=True, twins=True)
        hs = [gen_history(rng, desc, rng.choice([2, 3, 5, 8]))]
        if tier == "thorough" and d % 10 == 0:
            ops = fresh_ops(desc)
            base = [("all", i, oagen.overrides(rng, ops[i], arrays=True) if i % 2 == 0 else None) for i in range(len(ops))][:4]
            hs += [list(p) for p in itertools.permutations(base)]
        for h in hs:
            ck.count(json.dumps([desc, [list(map(str, c)) for c in h]], sort_keys=True, default=str), len(h) >= 2)
            stats["calls"] += len(h)
            stats["with_overrides"] += sum(1 for c in h if c[2])
            stats["generate_one_valid"] += sum(1 for c in h if c[0] == "one")
            for sig, what, extra in oracle(desc, h):
                # shrink the history
                hh = list(h)
                i = 0
                while i < len(hh) and len(hh) > 1:
                    cand = hh[:i] + hh[i + 1:]
                    if oracle(desc, cand):
                        hh = cand
                    else:
                        i += 1
                ck.violation(sig, what, dict(extra, stream="O", description=desc, history=hh))
            # correspondence on generate_all calls only (generate_one_valid output is formatted)
            h_all = [c for c in h if c[0] == "all"]
            line, impl = model_line(desc, h_all)
            lines.append(line)
            expect.append(impl)
            meta.append((desc, h_all))
    model = run_driver(lines)
    for m, e, (desc, h) in zip(model, expect, meta):
        ck.cov["traces_validated_against_impl"] += len(h)
        stats["error_calls"] += e.count("lib:") + e.count("py:")
        if m != e:
            ck.cov["disagreements_checked"] += 1
            ck.violation("correspondence-O", "cache model (coq/OpenApi.v) and generate.py disagree on a history",
                         {"stream": "O", "description": desc, "history": h, "impl": e, "model": m,
                          "theorem": "correspondence stream O"}, found_input=False)
    ck.sample({"history": meta[0][1], "paths": list(meta[0][0]["paths"].keys())})
    ck.cov["rule"] = ("random OpenAPI descriptions (2-4 operations over a shared pool of parameter/body schemas, $ref into components, "
                      "a scalar schema used both as body and as parameter) x histories of 2-8 generate_all/generate_one_valid calls with and "
                      "without overrides; thorough adds every order of up to 4 calls for every tenth description; distinct = (description, history), "
                      "non-trivial = at least 2 calls")
    ck.notes["input_distribution"] = stats
    ck.assumptions = ["the JSON pipeline inside SampleCache.add is a function of (schema text, is_body): parameter [compute] of the model, "
                      "instantiated per run with the results of fresh SampleCache().add calls",
                      "generate_one_valid is compared with a fresh cache by the oracle; the model correspondence covers generate_all"]
    return ck.finish(trusted=["model of SampleCache/generate_all/generate_one_valid: coq/OpenApi.v (hand-written, tied by stream O)"])


def replay(pid, path):
    d = json.load(open(path))
    h = [tuple(c) for c in d["history"]]
    res = oracle(d["description"], h)
    for sig, what, _ in res:
        print("replayed: %s [%s]" % (what, sig))
    return 1 if res else 0

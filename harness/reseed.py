"""Regression of the seeded-change matrix: for every /verif/seeded/<id>/ apply its patch to /repo, run the quick
check of its property, record the outcome under meta["latest"], undo.  usage: reseed.py [<id-prefix> ...]"""
import sys, os, json, subprocess

VERIF = os.path.dirname(os.path.dirname(os.path.abspath(__file__)))


def sh(cmd, cwd=None, timeout=3000):
    p = subprocess.run(cmd, shell=True, cwd=cwd, capture_output=True, text=True, timeout=timeout)
    return p.returncode, (p.stdout + p.stderr)


def main():
    want = sys.argv[1:]
    rc, out = sh("git -C /repo status --short")
    if out.strip():
        print("refusing: /repo has uncommitted changes")
        return 2
    missed = []
    touched = set()
    for name in sorted(os.listdir(os.path.join(VERIF, "seeded"))):
        d = os.path.join(VERIF, "seeded", name)
        if want and not any(name.startswith(w) for w in want):
            continue
        meta = json.load(open(os.path.join(d, "meta.json")))
        if not meta.get("kept", True):
            continue
        pid = name.split("-")[0]
        rc, out = sh("git -C /repo apply %s || git -C /repo apply --3way %s" % (os.path.join(d, "patch.diff"), os.path.join(d, "patch.diff")))
        if rc != 0:
            sh("git -C /repo reset -q --hard HEAD")
            meta["latest"] = {"patch_applies": False}
            json.dump(meta, open(os.path.join(d, "meta.json"), "w"), indent=1)
            print(name, "PATCH-DOES-NOT-APPLY")
            continue
        try:
            rcc, outc = sh("./check %s --tier quick" % pid, cwd=VERIF)
        finally:
            sh("git -C /repo reset -q --hard HEAD")
        touched.add(pid)
        lines = [l for l in outc.split("\n") if l.startswith("VIOLATION") or l.startswith("  detail")]
        concrete = any(l.startswith("VIOLATION") and "no-failing-input-found" not in l for l in lines)
        meta["latest"] = {"patch_applies": True, "check": pid, "exit": rcc, "concrete_input": concrete, "report": lines[:3]}
        json.dump(meta, open(os.path.join(d, "meta.json"), "w"), indent=1)
        print(name, "caught" if rcc == 1 else "MISSED", "concrete" if concrete else "no-input")
        if rcc != 1 or not concrete:
            missed.append(name)
    for pid in sorted(touched):          # evidence of the clean tree
        sh("./check %s --tier quick" % pid, cwd=VERIF)
    print("missed or without input:", missed)
    return 0


sys.exit(main())

"""Checks over stream G (core/node.py): C03, C04, C05, the core parts of C11 and C14.

For each property: (1) Coq obligations of coq/Properties/<id>.v, (2) correspondence of the model
(extracted, variant V_fixed) with the implementation on generated API programs, (3) the
property's own oracle on the implementation alone, which produces the replay when it fails."""
import random, itertools, json, os
import graphs, fences_env
from common import Check, run_driver, VERIF

VARIANT = (1, 1, 1)      # model variant that corresponds to /repo after the fix: commits
FUEL = 700
RECLIMIT = 2600


def _programs(ck, tier, seed):
    rng = random.Random(seed * 7919 + 17)
    progs = []
    # corpus first (minimised earlier failures and hand-written nasty cases)
    cdir = os.path.join(VERIF, "corpus", "G")
    if os.path.isdir(cdir):
        for f in sorted(os.listdir(cdir)):
            c = json.load(open(os.path.join(cdir, f)))
            progs.append(([tuple(o) for o in c["ops"]], c["root"]))
    n_rand = 1500 if tier == "quick" else 20000
    mx = 8 if tier == "quick" else 12
    for i in range(n_rand):
        if i % 5 == 4:
            progs.append(graphs.productive_cyclic_program(rng, rng.choice([5, 7, mx])))
        elif i % 5 == 3:
            progs.append(graphs.grammar_like_program(rng, rng.choice([1, 2, 3])))
        elif i % 5 == 2:
            progs.append(graphs.nested_program(rng, rng.choice([2, 3, 4])))
        else:
            progs.append(graphs.random_program(rng, rng.choice([3, 5, mx]), allow_bad=True))
    if tier == "thorough":
        progs += list(exhaustive_programs(4, 5))
    return progs, rng


def exhaustive_programs(max_nodes, max_edges):
    """all programs with node 0 a decision root, up to max_nodes nodes / max_edges transitions,
    every attachment order (the order of add_transition calls is observable)"""
    kinds_pool = [('D', False, False, None), ('D', True, False, None), ('L', True, None), ('L', False, None)]
    for n in range(2, max_nodes + 1):
        for ks in itertools.product(kinds_pool, repeat=n - 1):
            # canonical: skip permutations of identical leaf kinds at the end (symmetry reduction)
            kinds = [('D', False, False, None)] + list(ks)
            decs = [i for i, k in enumerate(kinds) if k[0] == 'D']
            pairs = [(s, t) for s in decs for t in range(1, n)]
            for m in range(1, min(max_edges, n + 1) + 1):
                if len(pairs) ** m > 3000:
                    continue
                for es in itertools.product(pairs, repeat=m):
                    yield (kinds + [('T', s, t) for s, t in es], 0)
                    # second root mode for the same structure
            kinds2 = [('D', True, False, None)] + list(ks)
            for m in range(1, min(max_edges, n) + 1):
                if len(pairs) ** m > 1500:
                    continue
                for es in itertools.product(pairs, repeat=m):
                    yield (kinds2 + [('T', s, t) for s, t in es], 0)


def _nontrivial(ops):
    return sum(1 for o in ops if o[0] not in 'TG') >= 3


def shrink(ops, root, bad):
    """drop ops while the predicate [bad] persists (transitions first, then trailing nodes)"""
    ops = list(ops)
    changed = True
    while changed:
        changed = False
        for i in range(len(ops) - 1, -1, -1):
            if ops[i][0] != 'T':
                continue
            cand = ops[:i] + ops[i + 1:]
            try:
                if bad(cand, root):
                    ops = cand
                    changed = True
            except Exception:  # noqa
                pass
        # drop last node if unused
        nodes = [o for o in ops if o[0] not in 'TG']
        last = len(nodes) - 1
        if last > root and not any(o[0] == 'T' and last in (o[1], o[2]) for o in ops):
            idx = max(i for i, o in enumerate(ops) if o[0] not in 'TG')
            cand = ops[:idx] + ops[idx + 1:]
            try:
                if bad(cand, root):
                    ops = cand
                    changed = True
            except Exception:  # noqa
                pass
    return ops


# ------------------------------------------------------------------------------------------
# reference interpreter written independently of the model and of the implementation
def simulate(ops, root, path, full=False):
    """the semantics stated in C04: a leaf consumes nothing; a choose-one decision consumes one index and
    takes that branch; a do-all decision runs all branches in order, each on the data the decision itself
    produced; the value returned is that of the last node run (None for a do-all without branches)"""
    kinds, outs = graphs._tables(ops)
    pos = [0]
    trace = []

    def run(n, data, depth=0):
        if depth > 400:
            raise RecursionError()
        k = kinds[n]
        if k[0] == 'R':
            raise NotImplementedError()
        trace.append((n, data))
        if k[0] == 'L':
            return "N" if n % 3 == 2 else str(n)
        mine = str(n)
        if k[1]:
            result = "N"
            for t in outs[n]:
                result = run(t, mine, depth + 1)
            return result
        i = path[pos[0]]          # IndexError when exhausted
        pos[0] += 1
        if i < 0:
            raise IndexError()
        return run(outs[n][i], mine, depth + 1)
    ret = run(root, "-")
    if pos[0] != len(path):
        raise fences_env_internal()
    if full:
        return ".".join("%d<%s" % (k, d) for k, d in trace) + ">" + ret
    return [k for k, _ in trace]


def fences_env_internal():
    from fences.core.exception import InternalException
    return InternalException("Path not fully consumed")


def siblings_completable(ops, root, path, target):
    """True when, for EVERY occurrence of the target in the execution of [path], every other branch of every
    do-all decision on the way from the root to that occurrence has a completion made of valid leaves only
    (then the route chosen by the implementation satisfies it too, whichever it is: C03_one_fault applies)"""
    kinds, outs = graphs._tables(ops)
    vc = graphs.vc_set(ops)
    pos = [0]
    verdicts = []

    def run(n, clean, depth=0):
        if depth > 300:
            raise RecursionError()
        k = kinds[n]
        if k[0] == 'L':
            if n == target:
                verdicts.append(clean)
            return
        if k[1]:
            kids = outs[n]
            for i, t in enumerate(kids):
                rest = all(vc[x] for j, x in enumerate(kids) if j != i)
                run(t, clean and rest, depth + 1)
        else:
            i = path[pos[0]]
            pos[0] += 1
            run(outs[n][i], clean, depth + 1)
    try:
        run(root, True)
    except Exception:  # noqa
        return False
    return bool(verdicts) and all(verdicts)


def oracle(pid, ops, root, xpaths):
    """Judge the implementation alone against the property text.  Returns list of (sig, what, extra)."""
    N = graphs.N
    out = []
    is_wf = graphs.wf(ops, root)
    prod = graphs.productive(ops)
    acyc = graphs.acyclic(ops)
    kinds, outs = graphs._tables(ops)
    nodes = graphs.build(ops)
    r = nodes[root]
    if pid == "C14":
        from fences.core.debug import check_consistency
        try:
            for n in nodes:
                check_consistency(n)
        except Exception as e:  # noqa
            out.append(("inconsistent-after-build", "check_consistency fails on a graph built with add_transition: %s" % e, {}))
        return out
    if not is_wf:
        return out
    entries = []
    err = None
    try:
        for e in r.generate_paths():
            entries.append(e)
    except Exception as e:  # noqa
        err = e
    if err is not None:
        if pid in ("C04", "C11") and (prod or acyc):
            out.append(("generate-paths-raises", "generate_paths() raises %s on a well-formed %s graph" % (
                graphs.err_str(err), "productive" if prod else "acyclic"), {}))
        if pid in ("C04", "C11"):
            pass
    seen_leaves = set()
    leaves = [i for i, k in enumerate(kinds) if k[0] == 'L']      # wf: every node is reachable (not taken from items())
    for idx, e in enumerate(entries):
        try:
            tr = graphs.execute_trace(r, e.path)
        except Exception as ex:  # noqa
            if pid in ("C04", "C11"):
                out.append(("path-does-not-execute", "entry %d (target %d, path %s) raises %s" % (
                    idx, e.target.k, e.path, graphs.err_str(ex)), {"entry": idx}))
            continue
        inv = [n for n in tr if kinds[n][0] == 'L' and not kinds[n][1]]
        if pid == "C03":
            if bool(e.is_valid) != (len(inv) == 0):
                out.append(("label-disagrees", "entry %d labelled %s but applies invalid leaves %s" % (
                    idx, "valid" if e.is_valid else "invalid", sorted(set(inv))), {"entry": idx}))
            if not e.target.is_valid and set(inv) != {e.target.k} and (prod or siblings_completable(ops, root, e.path, e.target.k)):
                out.append(("more-than-one-fault", "entry %d targets invalid leaf %d, every other branch that must be taken is completable, "
                            "but invalid leaves applied are %s" % (idx, e.target.k, sorted(set(inv))), {"entry": idx}))
        if pid == "C04":
            if e.target.k not in tr:
                out.append(("target-not-applied", "entry %d: target %d not in trace %s" % (idx, e.target.k, tr), {"entry": idx}))
            try:
                ref = simulate(ops, root, e.path, full=True)
                got = graphs.execute_full(r, e.path)
                if ref != got:
                    out.append(("not-reference-semantics", "entry %d: execution (node<data-from ... >returned) %s, reference semantics %s" % (idx, got, ref), {"entry": idx}))
            except Exception as ex:  # noqa
                out.append(("not-reference-semantics", "entry %d: reference interpreter fails: %r" % (idx, ex), {"entry": idx}))
        if pid == "C05":
            new = [n for n in tr if kinds[n][0] == 'L' and n not in seen_leaves]
            if not new:
                out.append(("redundant-path", "entry %d reaches no leaf that an earlier path had not reached" % idx, {"entry": idx}))
        seen_leaves.update(n for n in tr if kinds[n][0] == 'L')
    if pid == "C05" and (err is None or prod or acyc):
        # generation ends on a productive or acyclic graph (C11); when it ends with an exception instead, the paths
        # yielded before it are all there is
        miss = sorted(set(leaves) - seen_leaves)
        if miss:
            out.append(("leaf-not-covered", "leaves %s are applied by no generated path%s" % (
                miss, "" if err is None else " (generate_paths() raises %s after %d entries)" % (graphs.err_str(err), len(entries))), {}))
        if len(entries) > len(leaves):
            out.append(("more-paths-than-leaves", "%d paths for %d leaves" % (len(entries), len(leaves)), {}))
    if pid == "C04":
        for p in xpaths:
            try:
                want = ("ok", simulate(ops, root, p, full=True))
            except Exception as ex:  # noqa
                want = ("err", graphs.err_str(ex))
            try:
                got = ("ok", graphs.execute_full(r, p))
            except Exception as ex:  # noqa
                got = ("err", graphs.err_str(ex))
            if want != got:
                out.append(("not-reference-semantics", "path %s: execute gives %s, reference semantics %s" % (p, got, want), {"path": p}))
    return out


def run(pid, tier):
    ck = Check(pid, tier)
    coq_ok = ck.coq()
    if not coq_ok:
        ck.violation("coq-obligation", "coq/Properties/%s.v no longer checks: %s" % (pid, ck.obl["log"][-300:]),
                     {"theorem": ck.obl["file"]}, found_input=False)
    explore(ck, pid, tier)
    return ck.finish(trusted=["model of core/node.py: coq/Graph.v (hand-written, tied by stream G)"])


def explore(ck, pid, tier):
    # C05: the leaves are of a class with value semantics (equal payload = equal leaf); the library must not mix them up
    graphs.VALUE_LEAVES = pid == "C05"
    progs, rng = _programs(ck, tier, ck.seed)
    cases = []
    for ops, root in progs:
        xp = graphs.complete_paths(ops, root, 4, 6) if pid == "C04" else []
        xp = xp + [graphs.mutate_path(rng, p) for p in xp[:3]]
        cases.append((ops, root, xp))
    lines = [graphs.case_line(VARIANT, FUEL, r, o, x) for o, r, x in cases]
    model = run_driver(lines)
    stats = {"wf": 0, "productive": 0, "acyclic": 0, "cyclic_productive": 0, "error_outcomes": 0,
             "with_invalid_leaf": 0, "nodes_hist": {}}
    disagreements = []

    def body():
        for (ops, root, xp), m in zip(cases, model):
            impl = graphs.observe(ops, root, xp)
            nn = sum(1 for o in ops if o[0] not in 'TG')
            ck.count(json.dumps(ops), _nontrivial(ops))
            stats["nodes_hist"][nn] = stats["nodes_hist"].get(nn, 0) + 1
            w, p, a = graphs.wf(ops, root), graphs.productive(ops), graphs.acyclic(ops)
            stats["wf"] += w
            stats["productive"] += w and p
            stats["acyclic"] += w and a
            stats["cyclic_productive"] += w and p and not a
            stats["error_outcomes"] += ("fail=" in impl or "status=ok:" not in impl)
            stats["with_invalid_leaf"] += any(o[0] == 'L' and not o[1] for o in ops)
            ck.cov["traces_validated_against_impl"] += impl.count(";") + 1
            if impl != m:
                disagreements.append((ops, root, xp, impl, m))
            for sig, what, extra in oracle(pid, ops, root, xp):
                def still(o2, r2, sig=sig):
                    return any(s == sig for s, _, _ in oracle(pid, o2, r2, []))
                small = shrink(ops, root, still) if len(ck.violations) < 3 else ops
                ck.violation(sig, what, dict(extra, stream="G", ops=small, root=root, original_ops=ops))
    fences_env.run_with_big_stack(body, reclimit=RECLIMIT)
    ck.cov["disagreements_checked"] = len(disagreements)
    for ops, root, xp, impl, m in disagreements[:3]:
        def still(o2, r2):
            return graphs.observe(o2, r2, []) != run_driver([graphs.case_line(VARIANT, FUEL, r2, o2, [])])[0]
        try:
            small = fences_env.run_with_big_stack(lambda: shrink(ops, root, still), reclimit=RECLIMIT)
        except Exception:  # noqa
            small = ops
        if not any(v["found_input"] for v in ck.violations):
            ck.violation("correspondence-G", "model (coq/Graph.v, V_fixed) and core/node.py disagree on an API program",
                         {"stream": "G", "ops": small, "root": root, "impl": impl, "model": m,
                          "theorem": "correspondence stream G"}, found_input=False)
    if pid == "C05":
        # the graphs of the five front ends: every leaf applied by some generated path, every path reaches a new leaf
        import frontends
        fe = {}

        def front():
            for name, what, root in frontends.graphs(rng, 100 if tier == "quick" else 2000):
                fe[name] = fe.get(name, 0) + 1
                trace, leaves = frontends.record(root)
                try:
                    entries = list(root.generate_paths())
                except RecursionError:
                    continue
                seen = set()
                for idx, e in enumerate(entries):
                    del trace[:]
                    try:
                        root.execute(e.path)
                    except Exception:  # noqa
                        continue
                    applied = set(id(n) for n in trace if isinstance(n, graphs.N.Leaf))
                    if not (applied - seen):
                        ck.violation("redundant-path:" + name, "%s graph for %s: path %d reaches no leaf that an earlier path had not reached" % (name, what[:200], idx),
                                     {"stream": "front-ends", "front_end": name, "input": what})
                        break
                    seen |= applied
                miss = [n for n in leaves if id(n) not in seen]
                if miss:
                    ck.violation("leaf-not-covered:" + name, "%s graph for %s: %d leaves are applied by no generated path (e.g. %s)" % (
                        name, what[:200], len(miss), miss[0].description()), {"stream": "front-ends", "front_end": name, "input": what})
                if len(entries) > len(leaves):
                    ck.violation("more-paths-than-leaves:" + name, "%s: %d paths for %d leaves" % (name, len(entries), len(leaves)),
                                 {"stream": "front-ends", "front_end": name, "input": what})
        fences_env.run_with_big_stack(front, reclimit=RECLIMIT)
        stats.update({"front_end_" + k: v for k, v in fe.items()})
    ck.sample({"ops": cases[len(cases) // 2][0], "root": 0})
    ck.sample({"ops": cases[-1][0], "root": 0})
    ck.cov["rule"] = ("API programs over the node classes: corpus, then seeded random programs (1..12 nodes, biased to sharing, "
                      "repeated children, same-index sharing, cycles, leaves under do-all), thorough adds every program up to "
                      "4 nodes/5 transitions in every attachment order; distinct = distinct op list, non-trivial = at least 3 nodes")
    ck.notes["input_distribution"] = stats
    ck.notes["model_variant"] = "V_fixed (fix_leaf, fix_af)"
    ck.assumptions = ["CPython recursion limit / wall clock are not modelled (fuel = recursion depth)",
                      "specification predicates wf/productive/acyclic are evaluated by the extracted model "
                      "and cross-checked against an independent Python implementation on every case"]


def replay(pid, path):
    d = json.load(open(path))
    graphs.VALUE_LEAVES = pid == "C05"
    ops = [tuple(o) for o in d["ops"]]
    root = d.get("root", 0)
    res = fences_env.run_with_big_stack(lambda: oracle(pid, ops, root, [d["path"]] if "path" in d else []), reclimit=RECLIMIT)
    for sig, what, _ in res:
        print("replayed: %s [%s]" % (what, sig))
    m = run_driver([graphs.case_line(VARIANT, FUEL, root, ops, [])])[0]
    i = fences_env.run_with_big_stack(lambda: graphs.observe(ops, root, []), reclimit=RECLIMIT)
    print("impl :", i)
    print("model:", m)
    return 1 if res or m != i else 0

"""Regenerates /verif/MANIFEST.json from the table below (keeps it schema-valid at all times)."""
import json, os
V = os.path.dirname(os.path.dirname(os.path.abspath(__file__)))
BASE = "cd /repo && /venv/bin/python -m pytest -ra -q -p no:cacheprovider --timeout=900 --continue-on-collection-errors"
TB = ("Trusted: Coq 8.16.1 kernel (full .vo build, vm_compute, no native_compute), no axioms (Print Assumptions: closed under the "
      "global context for every theorem), ExtrOcamlBasic-only extraction + ocaml/driver.ml, harness/*.py generators and oracles. ")

CLAIMED = {
 "C03": dict(cat="proof", tech="Coq proof (induction over fuel/graph) + model-implementation correspondence on API programs",
   text="Theorems C03_label, C03_one_fault, C03_label_built (coq/Properties/C03.v) hold for every consistently linked graph, i.e. every graph "
        "the public API can build, any fuel; proved via soundness+completeness of the _analyze_backwards annotations. C03_label_refuted_pinned "
        "keeps the defect of the pinned code machine-checked. Tie to /repo: extracted model vs core/node.py on generated API programs "
        "(items, annotations, entries, labels, traces, error classes), plus an implementation-only oracle that yields the replay.",
   note=TB + "Modelled, not verified: coq/Graph.v is a hand-written model of core/node.py (fuel = recursion depth; CPython stack limit not modelled).",
   ref="5/C03"),
 "C04": dict(cat="proof", tech="Coq proof + model-implementation correspondence on API programs and arbitrary paths",
   text="C04_exact (every yielded path is consumed exactly and applies its target, both code variants), C04_reference (the interpreter equals the "
        "big-step reference semantics Run for every path), C04_exact_reference; C04_no_error_refuted_pinned keeps the _analyze_forwards defect. "
        "C04_no_error: on every well-formed graph that is productive or acyclic generate_paths ends without error for every sufficiently large recursion budget "
        "and every entry is a run of the reference semantics through its target (repaired _analyze_forwards). Correspondence also runs complete, truncated and over-long paths.",
   note=TB + "Modelled: coq/Graph.v; data values are abstracted to traces of applied nodes.", ref="5/C04"),
 "C05": dict(cat="proof", tech="Coq proof of the work-list loop invariant + correspondence",
   text="C05_cover, C05_fresh, C05_count for every well-formed graph and both code variants (invariant of the work-list loop: the visited set "
        "returned by _backward/_forward/_generate is exactly the set of nodes of the execution trace). Front-end graphs are covered through the "
        "same theorem once their graphs are shown well-formed (C14); their correspondence streams run the same oracle.",
   note=TB + "Modelled: coq/Graph.v.", ref="5/C05"),
 "C18": dict(cat="proof", tech="Coq proof of a cache invariant over all call histories + correspondence of the cache state machine",
   text="C18_generate_all / C18_generate_one_valid: for EVERY pipeline function, history of calls (overrides, failures, any order) and probe call the result "
        "equals the fresh-cache result (invariant: every cached entry equals compute(key, flag)); C18_separation; C18_refuted_pinned keeps the defect of the "
        "pinned code. Tie: extracted model vs generate.py on random descriptions x histories, plus fresh-cache oracle on the implementation.",
   note=TB + "Modelled: coq/OpenApi.v; the JSON pipeline inside SampleCache.add is a parameter (function of schema text and is_body) - that it is such a function "
        "is checked by the fresh-cache oracle only. Aliasing of sample objects between cache and requests is not modelled.", ref="5/C18"),
 "C19": dict(cat="proof", tech="Coq proof (split/join round-trip) + exhaustive-shape correspondence with format.py",
   text="C19_roundtrip: for all names, both styles x both explode settings and all flat values (delimiter-free, non-empty items) decoding the rendering by the "
        "OpenAPI 3 style table returns the value with scalars as strings; C19_form_explode_array (documented exception); C19_reject (only the library exception, "
        "only for non scalar/list/dict). Tie: extracted model vs format.py on every style x explode x shape; spec decoder cross-checked against an independent Python decoder.",
   note=TB + "Modelled: coq/Format.v; numbers enter the model as the text Python's str() gives (float formatting not modelled); booleans inside containers are outside the quantifier.", ref="5/C19"),
 "C14": dict(cat="proof", tech="Coq proofs for add_transition and for resolve() over all API programs + correspondence + per-graph certified well-formedness",
   text="C14_build (every API program yields tables linked on both ends), C14_resolve / C14_resolve_general (after a successful resolve no Reference is reachable from the "
        "returned root, child links stay recorded, records of non-reference nodes are truthful; any sub-graphs, chains, sharing, recursion), C14_unknown_name / "
        "C14_duplicate_id (documented exception); C14_resolve_then_optimize, C14_grammar_output, C14_regex_output, C14_xsd_output and C14_json_output (C14_json_nf_output): for every grammar / every regex of the dialect / every XSD element tree / every JSON schema (every normal form) the graph the front end returns is linked on both ends at every "
        "reachable node (and, for grammars and XSDs, contains no reachable Reference): builder invariant, resolve_spec, live-set invariant of optimize and of the wrapper nodes. Other parser outputs: the node table of every graph returned by the five front ends is checked by the model's wfb "
        "(proved sufficient) and by check_consistency / id uniqueness on the implementation.",
   note=TB + "Modelled: coq/Graph.v, coq/GraphOps.v. Front-end graphs are checked by their own streams as they are added.", ref="5/C14"),
 "C15": dict(cat="proof", tech="Coq simulation proof (both directions) for optimize() + model-implementation correspondence of the node table",
   text="C15_sem / C15_sem_everywhere: for every graph and every complete execution before optimize() there is one after it applying the same side-effecting nodes "
        "(everything but NoOpDecisions) in the same order, and conversely, for every node, any chain length, any sharing and cycles, unbounded execution depth; "
        "C15_same_invalid_leaves. C15_links / C15_links_resolved: after optimize() both checks of check_consistency hold at every node reachable from the root, for every table linked "
        "consistently throughout and for every table as resolve() leaves it (invariant over the traversal: every node outside the set of spliced-out nodes has truthful records and points to "
        "such nodes only; chains have no repetition because every chain node has exactly one incoming record); C15_count / C15_count_resolved: items() does not grow (every transition "
        "after is a path before); C15_table_size. The correspondence compares the full node table incl. incoming records, the oracle runs check_consistency and counts items.",
   note=TB + "Modelled: coq/GraphOps.v.", ref="5/C15"),
 "C09": dict(cat="proof", tech="Coq proof of language membership by structural induction over the regex AST (builder correctness + C15_sem for optimize) + model-implementation correspondence from the AST + re.fullmatch oracle",
   text="C09_language: for every expression r of the dialect (any nesting of groups, alternation, classes, quantifiers ? * + {n} {n,} {n,m}) and every complete execution of the graph "
        "that the model of regex/parse.py builds for r -- tree converters, _repeat, optimize(), input / super-root / output nodes -- the string produced is matched in full by r "
        "(inductive specification `matches`); C09_leaves_valid and C09_entries: every entry of generate_paths on that graph is labelled valid and its string matches r. "
        "The coverage half (every literal / class member / range end occurs in some string) follows from C05 once the graph is well-formed (certified per graph) and is also "
        "checked by the oracle. Tie: random ASTs are printed to concrete syntax, parsed by the real lark parser, and canonical graph dumps, entries and samples are compared with the model.",
   note=TB + "Modelled: coq/Regex.v from the AST; the LALR parser and unescape() only through the correspondence. The specification `matches` is the standard inductive one; "
        "its agreement with Python's re is exercised by the re.fullmatch oracle on every sample, not proved.", ref="5/C09"),
 "C20": dict(cat="proof", tech="Coq proof of the length bounds and of 'contains a match' for every pattern/fuel + correspondence with core/random.py",
   text="C20_length: whenever the model of generate_random_string returns a string its length is within [min, max] for all min, max >= min or absent, all patterns, "
        "any fuel and either code variant; C20_contract: the assert can only fire outside the contract; C20_contains_match: with a pattern the returned string is "
        "padding followed by a string the pattern matches in full (via C09_language). Tie: correspondence stream RS; oracle: length bounds, re.search, exception class.",
   note=TB + "Modelled: coq/Regex.v (gen_random_string).", ref="5/C20"),
}


for _pid, _title, _what in [
  ("C01", "valid samples accepted", "every sample labelled valid is accepted by jsonschema Draft202012Validator; non-vacuity when a generated sample is accepted; Coq: the values the number / string / enum handlers mark valid satisfy the keywords of their alternative (arithmetic and kvalid form)"),
  ("C02", "invalid samples rejected", "every sample labelled invalid is rejected by the validator; Coq: each bound keyword is violated by one of the numbers marked invalid, enum non-members are not members"),
  ("C12", "constraints fenced on both sides", "every single-constraint relaxation (type, declared required property, numeric bound) changes the verdict of some sample; Coq: fence lemmas of the builder for numeric bounds, enum members, forbidden types (C12_type_fenced) and omitted required properties (C12_required_fenced)"),
  ("C06", "normalisation preserves acceptance", "extended validator (NOT_enum / NOT_multipleOf) agrees on the schema and on normalize(schema) over an instance grid (equality for full merge, implication for reduced merge); Coq (keyword level, coq/JsonValid.v): every scalar inverter (bounds, lengths, item counts, enum, type) is satisfied exactly by the instances that violate the keyword, _merge is characterised key by key and is a conjunction on sets of bounds"),
  ("C07", "XML documents validate / do not validate", "xmlschema validates every document labelled valid and rejects every document labelled invalid (schemas without emptiable choice branches), numeric draws forced to both ends of their range; the executable Coq model of xml_schema/parse.py + xpath.py (coq/Xml.v: tag handlers, _repeat, type table, restrictions, resolve, optimize, and the document a path builds) is compared with the implementation on every generated schema (stream X: canonical graph with payloads, entries, labels, documents; the numbers drawn at parse time are an input of the model); Coq: C07_repeat_bounds, C07_repeat_unbounded, C07_repeat_empty_label, C07_repeat_alternatives (every alternative below the decision of _repeat is the empty leaf -- valid exactly when minOccurs = 0 --, k occurrences with k = minOccurs or k = maxOccurs, or minOccurs - 1 occurrences followed by a leaf marked invalid; for every child, bounds and earlier graph), C07_repeat_offers (each of these boundary cases is offered), C07_attribute_omission_label (every attribute declaration the handler accepts, with the real recursive parser for its children: the leaf created for 'attribute left out' is marked valid in the returned graph exactly when use is not required), C07_attribute_fixed_fence (parse_attribute on a fixed attribute: omission leaf valid exactly when use is not required, present branch with exactly the fixed value marked valid and a different value marked invalid, earlier graph untouched; coq/XmlFence.v)"),
  ("C10", "OpenAPI request labels", "every request of generate_all is taken apart (applied parameter / body leaves), each carried raw value judged by jsonschema against its parameter / body schema, required parts checked, method and placeholder-free path checked, and compared with the label; the request graph is an instance of the C03 theorem (its well-formedness is checked by the model's wfb on the dumped node table)"),
  ("C13", "history independence", "random histories of parse / normalize / generate_paths / execute calls followed by a probe, compared with the probe run first in a fresh interpreter (same hash seed and random seed); inputs deep-compared before / after; repeated execute compared; Coq (core): C13_history_free -- generate_paths yields the same entries, labels and outcome whatever distance annotations earlier calls left on the graph (agree-on-table congruence through all five traversals), C13_refuted_pinned keeps the defect of the pinned code"),
  ("C17", "own exception for unsupported constructs", "supported inputs with one legal out-of-dialect construct planted (45 JSON constructs, 43 regex patterns, 23 XSD insertions, 15 grammar dictionaries, 17 OpenAPI variants); the outcome must be a graph or an exception derived from FencesException; Coq: error-class lemmas of the models; own-exception theorems for the regex, grammar and XSD front ends and for the JSON generator on normal forms (C17_json_generator_own)"),
]:
    CLAIMED[_pid] = dict(cat="other", tech="model-implementation correspondence of executable Coq models + independent oracle; Coq theorems in progress",
        text="Executable Coq models (coq/Normalize.v, coq/JsonGen.v, coq/Xml.v, coq/OpenApi.v) of the code path of this property are tied to the implementation on random inputs of the "
             "property's dialect (canonical graph dumps, generated entries, samples, normal forms); oracle on the implementation alone: " + _what + ". The theorems of "
             "DESIGN.md section 5 for this property are not closed yet, therefore the level is not claimed as proof.",
        note=TB + "Modelled: hand-written Gallina models of normalize.py / parse.py / convert.py; integral numeric constants; insertion-ordered sets in the correspondence run.", ref="5/" + _pid)

CLAIMED["C06"] = dict(cat="proof", tech="Coq proof that normalize() preserves acceptance on the propositional-scalar fragment (keyword mergers and inverters, _merge, _invert, merge, invert, _to_dnf, _inline_refs, normalize) + executable specification compared with jsonschema + model-implementation correspondence of normal forms + validator oracle over instance grids for the whole dialect",
   text="Partial, by fragment. C06_fragment / C06_fragment_default / C06_fragment_exec: for every schema built from type, enum, const, minimum / maximum / exclusiveMinimum / exclusiveMaximum, minLength / maxLength, "
        "minItems / maxItems and the negated enum, combined by allOf, anyOf, oneOf, not and if / then / else to any depth (unique keys, well-typed values, no 'integer'; the repaired handling of a lone if), whenever the model of normalize() returns -- full merge, no "
        "duplicate detection, no keyword of the fragment discarded; in particular the default configuration -- the any-of list it returns is satisfied by exactly the instances the schema accepts "
        "(inductive meaning `sem`; any recursion budget, any nesting depth). Layers: C06_merge_alternatives (_merge of two keyword sets = conjunction, and it fails where a key has no merger), "
        "C06_invert_alternative, C06_merge_full (multiplying out = conjunction), C06_invert (= negation), C06_simplifications (const folded into enum, the conditional rewritten -- an equivalence because "
        "acceptance is decidable --, type respelled), C06_to_dnf_fragment (oneOf = exactly one), C06_lone_if_refuted_pinned; keyword laws C06_invert_bounds / _lengths / _enum_type. The meaning is "
        "executable (C06_spec_executable: fragb decides membership soundly, semb = sem) and is compared with jsonschema on generated documents of the fragment x instance grids (stream NS), together with "
        "the model's and the implementation's normal forms. Not in the theorem: properties, required, items, prefixItems, $ref, multipleOf, 'integer', dependentRequired and the "
        "reduced-merge option (subset claim) -- there the statement is decided by the extended-validator oracle over instance grids and the correspondence of normal forms (stream N).",
   note=TB + "Modelled: coq/Normalize.v (hand-written model of normalize.py + json_pointer.py), integral numeric constants, sets insertion-ordered in the correspondence run. "
        "The specification `sem` of acceptance is ours; its agreement with Draft 2020-12 is exercised against jsonschema (stream NS), not proved.", ref="5/C06")

CLAIMED["C10"] = dict(cat="proof", tech="Coq proof about the request graph of generate_all (well-formedness of the two-level graph for every plan, shape of all its runs, C03/C05/C11 instantiated) + correspondence of plan, graph and generated entries with generate.py + part-by-part jsonschema oracle",
   text="C10_label: for every plan (any number of parameters, any sample lists) every entry generate_paths yields for the graph generate_all builds takes exactly one option per group in plan order, "
        "its execution applies the leaves of those options only, and it is labelled valid exactly when all options taken are flagged valid. C10_label_conforms: hence, for every operation, a request is "
        "labelled valid exactly when every carried value satisfies its schema and everything left out is optional, and a path parameter is never left out -- under the stated hypothesis on the JSON "
        "pipeline (valid samples satisfy the schema, invalid ones do not: C01 / C02, which are decided by their own checks, not by a theorem). C10_cover: the enumeration ends and every option of "
        "every group occurs in some request; C10_any_choice; C10_plan_of_generate_all ties the plan to any used cache (C18). Partial: make_path's textual placeholder replacement, the method field and the "
        "serialisation of the carried value (C19) are not in the theorem; the oracle checks them on every request. Tie: stream O (plan) and stream OG (entries, labels and the option every path applies per group).",
   note=TB + "Modelled: coq/OpenApi.v (plan), coq/OpenApiGraph.v (graph layout; node ids not modelled). Hypothesis of C10_label_conforms: the JSON pipeline behind SampleCache.add labels its samples correctly "
        "(checked per request by the jsonschema oracle of this check and by C01 / C02) and never returns two empty lists (SampleCache.add raises otherwise).", ref="5/C10")

CLAIMED["C11"] = dict(cat="proof", tech="Coq termination proof of generate_paths (well-founded measures on the distance annotations) + per-graph certificates for front-end graphs + correspondence",
   text="C11_core_productive / C11_core_acyclic: on every well-formed graph in which every decision has a completion made of valid leaves (cycles, sharing, repeated "
        "children, any size) and on every acyclic graph there is a recursion budget from which on generate_paths() of the model ends normally, with the same entries for "
        "every larger budget (OutOfFuel = RecursionError); C11_paths_execute: every entry then executes to the end; C11_analysis_budget: explicit budget nodes + transition "
        "records for the analysis; C11_checkers: the boolean checkers wfb / productiveb / acyclicb decide the hypotheses. Front ends (partial): that parse_json_schema / "
        "parse_grammar / parse_xml_schema return in finite time with a graph that satisfies those hypotheses is not a theorem; it is established per input: the node table "
        "of the graph the implementation built is certified by the checkers inside the extracted model (stream WG), the model's entries are compared with the "
        "implementation's, and divergence is observed (RecursionError / alarm). Termination of normalize() itself is observed under C16.",
   note=TB + "Modelled: coq/Graph.v (core/node.py). Not modelled: CPython's stack limit (fuel = recursion depth; the budget of the two walks is shown to exist, not bounded by a formula), "
        "wall-clock time; front-end graph construction is tied by certificates and observation only.", ref="5/C11")

CLAIMED["C16"] = dict(cat="proof", tech="Coq proof that normalize() returns a nested normal form (invariants of _inline_refs, _to_dnf, _merge and the definitions table) + model-implementation correspondence of normal forms",
   text="C16_normal_form: for every input schema, both merge options, duplicate detection on or off and any recursion budget, whenever the model of normalize() returns, "
        "the result is {anyOf: [...], $defs: {...}} in which every alternative is a lone reference into the result's own $defs or a keyword set without anyOf / allOf / "
        "oneOf / not / if / then / else / const / $ref whose sub-schemas (additionalProperties, items, additionalItems, contains, every property, every prefix item) are "
        "again of that form to any depth, and every entry of $defs is of that form; C16_inline_refs, C16_to_dnf are the two main lemmas. The termination half (finite time on "
        "guarded recursion) is partial: no theorem, it is observed on the implementation (RecursionError / alarm, 22 s budget per schema) over random recursive documents "
        "including recursion through then / else / not and references next to sibling keywords; the two families of non-termination found this way were repaired (e322fa7, 3e0af93).",
   note=TB + "Modelled: coq/Normalize.v (hand-written model of normalize.py + json_pointer.py); sha1 names modelled as table positions; sets insertion-ordered in the correspondence run.",
   ref="5/C16")

CLAIMED["C08"] = dict(cat="proof", tech="Coq proof of derivability for every execution of the converted grammar graph (builder shapes, semantic statement of resolve(), C15_sem for optimize) + model-implementation correspondence on random grammars + derivability / coverage oracle",
   text="C08_language: for every grammar whose ranges and repetition bounds are in order (any number of rules, left- / right- / self-recursion, forward references, any nesting) and every "
        "complete execution of the graph returned by the model of convert(), generated path or not, the string produced is derivable from the start symbol (inductive `derives`). "
        "C08_resolve_sem: resolve() leaves kinds unchanged and replaces, on every node of a successor-closed visited set containing the root, each successor by the node it "
        "dereferences to. Labels: every leaf the converter creates is a valid leaf, so every entry is labelled valid once the graph is well-formed (certified per graph). "
        "The coverage half (every terminal occurrence, both range ends) follows from C05 on the certified graph and is checked occurrence-wise by the oracle; repetition counts: C08_rep_bounds.",
   note=TB + "Modelled: coq/Grammar.v, coq/GraphOps.v (resolve, optimize). The grammar enters the model as an AST (dict order = list order); the specification `derives` is the usual "
        "inductive one and is cross-checked by an independent chart-based recogniser on every sample.", ref="5/C08")

NOT_YET = {}

def main():
    props = [json.loads(l) for l in open(os.path.join(V, "properties.jsonl"))]
    checks, na = [], []
    for p in props:
        pid = p["id"]
        if pid in CLAIMED:
            c = CLAIMED[pid]
            checks.append({
                "property_id": pid,
                "quick_cmd": "./check %s --tier quick" % pid,
                "thorough_cmd": "./check %s --tier thorough" % pid,
                "evidence_file": "/verif/evidence/%s.json" % pid,
                "replay_cmd_template": "./check %s --replay {path}" % pid,
                "engine": "coq-model+ocaml-driver+python-harness",
                "level_claimed": {"category": c["cat"], "text": c["text"], "design_ref": c["ref"]},
                "level_note": c["note"],
                "technique": c["tech"],
            })
        else:
            na.append({"property_id": pid, "reason": NOT_YET.get(pid, "not claimed yet: model and check still to be built in this round (see DESIGN.md section 9)")})
    m = {
        "version": 1,
        "setup_cmd": "./setup.sh",
        "hooks": {"guard": "FENCES_VERIF", "enable": "none needed: the harness observes through the public API from its own process (fences/regex/grammar.py is generated in memory by harness/fences_env.py, never written into /repo)",
                  "baseline_off_cmd": BASE, "source_commits": [], "add_only": True},
        "engines": [
            {"name": "coq-model", "path": "coq/", "serves_properties": sorted(CLAIMED), "kind_free_text": "Gallina models + theorems, Coq 8.16.1"},
            {"name": "ocaml-driver", "path": "ocaml/driver.ml", "serves_properties": sorted(CLAIMED), "kind_free_text": "extracted model runner for the correspondence check"},
            {"name": "python-harness", "path": "harness/", "serves_properties": sorted(CLAIMED), "kind_free_text": "generators, implementation runner, oracles, evidence"},
        ],
        "checks": checks,
        "not_applicable": na,
        "notes": "Technique: machine-checked proof in Coq about hand-written executable models, tied to /repo by a correspondence check on every run. See DESIGN.md.",
    }
    json.dump(m, open(os.path.join(V, "MANIFEST.json"), "w"), indent=1)

if __name__ == "__main__":
    main()

"""C08: grammar samples are derivable, terminals covered, repetition counts within bounds."""
import random, json
import fences_env
from common import Check, run_driver
import grammars as GM, graphs, regexes as R

VAR = ["1", "1", "1"]
FUEL = 900


def in_scope(g, start):
    return GM.names_defined(g) and GM.productive(g)


def oracle(g, start):
    res = []
    if not in_scope(g, start):
        return res
    obs, pairs = GM.observe(g, start)
    if obs.startswith("parse=") or "status=ok:" not in obs:
        return [("grammar-raises", "grammar in the supported dialect: %s" % obs.split("|")[0][:120] if obs.startswith("parse=") else
                 "generation does not end normally: %s" % obs.split("status=")[1].split("|")[0])]
    for e, s in pairs:
        if s is None:
            res.append(("path-does-not-execute", "a generated path does not execute"))
            continue
        if not e.is_valid:
            res.append(("sample-labelled-invalid", "string %r is labelled invalid" % s))
        if len(s) <= 24 and not GM.derivable(g, start, s):
            res.append(("not-derivable", "generated string %r is not derivable from the start symbol" % s))
    d2 = GM.second_run_differs(g, start)
    if d2:
        res.append(("second-enumeration-differs", d2))
    joined = "".join(s for _, s in pairs if s is not None)
    for t in GM.reachable_terminals(g, start):
        if t not in joined:
            res.append(("terminal-not-used", "terminal / range end %r reachable from the start symbol occurs in no generated string" % t))
            return res
    # occurrence-wise: some generated string has a derivation that uses this very occurrence
    short = [s for _, s in pairs if s is not None and len(s) <= 14]
    if len(short) == len(pairs) and len(pairs) <= 40:
        for occ in GM.occurrences(g, start)[:12]:
            if not any(GM.derivable_using(g, start, s, occ) for s in short):
                res.append(("occurrence-not-used", "the occurrence of terminal / range end %r at one place of the grammar is used by no derivation of any generated string" % occ[2]))
                break
    return res


def shrink(g, start, bad):
    changed = True
    while changed:
        changed = False
        for k in range(len(g)):
            nm, r = g[k]
            cands = []
            if r[0] in 'CA':
                cands += [x for x in r[1]] + [(r[0], r[1][:i] + r[1][i + 1:]) for i in range(len(r[1])) if len(r[1]) > 1]
            if r[0] == 'P':
                cands.append(r[1])
            if nm != start and len(g) > 1:
                g2 = g[:k] + g[k + 1:]
                try:
                    if bad(g2):
                        g = g2
                        changed = True
                        break
                except Exception:  # noqa
                    pass
            for c in cands:
                g2 = g[:k] + [(nm, c)] + g[k + 1:]
                try:
                    if bad(g2):
                        g = g2
                        changed = True
                        break
                except Exception:  # noqa
                    pass
            if changed:
                break
    return g


def run(pid, tier):
    ck = Check(pid, tier)
    if not ck.coq():
        ck.violation("coq-obligation", "coq/Properties/%s.v no longer checks: %s" % (pid, ck.obl["log"][-300:]),
                     {"theorem": ck.obl["file"]}, found_input=False)
    rng = random.Random(ck.seed * 211 + 7)
    n = 300 if tier == "quick" else 5000
    cases = [GM.gen_grammar(rng) for _ in range(n)]
    lines = [" ".join(["GM"] + VAR + [str(FUEL)] + GM.enc_grammar(g, s)) for g, s in cases]
    model = run_driver(lines)
    hist = {"in_scope": 0, "recursive": 0, "with_repetition": 0, "error_outcomes": 0}

    def body():
        for (g, start), m in zip(cases, model):
            txt = json.dumps(g)
            ck.count(txt, len(txt) > 40)
            hist["in_scope"] += in_scope(g, start)
            hist["recursive"] += '"N"' in txt
            hist["with_repetition"] += '"P"' in txt
            impl, _ = GM.observe(g, start)
            hist["error_outcomes"] += impl.startswith("parse=") or "status=ok:" not in impl
            ck.cov["traces_validated_against_impl"] += 1
            if impl != m:
                ck.cov["disagreements_checked"] += 1
                small = g
                if ck.cov["disagreements_checked"] <= 2:
                    small = shrink(g, start, lambda c: GM.observe(c, start)[0] != run_driver([" ".join(["GM"] + VAR + [str(FUEL)] + GM.enc_grammar(c, start))])[0])
                ck.violation("correspondence-Gr", "model (coq/Grammar.v) and grammar/convert.py disagree",
                             {"stream": "Gr", "grammar": small, "start": start, "impl": impl[:500], "model": m[:500],
                              "theorem": "correspondence stream Gr"}, found_input=False)
            for sig, what in oracle(g, start):
                small = shrink(g, start, lambda c, sig=sig: any(s == sig for s, _ in oracle(c, start))) if len(ck.violations) < 3 else g
                ck.violation(sig, what, {"stream": "Gr", "grammar": small, "start": start})
    fences_env.run_with_big_stack(body, reclimit=3000)
    ck.sample({"grammar": cases[0][0], "start": cases[0][1]})
    ck.cov["rule"] = ("random grammars with 1-4 rules over terminals (also empty and multi-character), non-terminals (direct, mutual, left/right/self "
                      "recursion), concatenation, alternative, character range, repetition (start 0-2, stop absent / equal / larger); the oracle applies to "
                      "grammars whose non-terminals all derive a finite string and whose names are defined; distinct = grammar, non-trivial = json text > 40 chars")
    ck.notes["input_distribution"] = hist
    ck.assumptions = ["derivability oracle: chart-based least fixed point in the harness, applied to samples of at most 24 characters"]
    return ck.finish(level="proof", trusted=["model of grammar/convert.py: coq/Grammar.v (tied by stream Gr)"],
                     explanation="theorem C08_language (coq/GrammarLang.v): every complete execution of the graph built by the model of convert() -- rule decisions, "
                                 "References resolved by resolve() (semantic statement resolve_sem: successors of visited nodes are the dereferenced successors), optimize(), "
                                 "input / output nodes -- yields a string derivable from the start symbol, by induction over the execution against the shape the converter gives "
                                 "each right-hand side; the model is tied to the implementation on random grammars (graph dumps, entries, samples); chart-based derivability and "
                                 "occurrence-wise coverage oracle on the implementation alone")


def replay(pid, path):
    d = json.load(open(path))

    def tup(x):
        if isinstance(x, list) and x and isinstance(x[0], str) and x[0] in ("T", "N", "C", "A", "R", "P"):
            return tuple(tup(y) if i != 1 or x[0] not in "CA" else [tup(z) for z in y] for i, y in enumerate(x))
        return x
    g = [(nm, tup(r)) for nm, r in d["grammar"]]
    res = fences_env.run_with_big_stack(lambda: oracle(g, d["start"]), reclimit=3000)
    for sig, what in res:
        print("replayed: %s [%s]" % (what, sig))
    return 1 if res else 0

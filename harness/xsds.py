"""Random XML Schemas of the C07 subset, as an AST that is printed to XSD text for the implementation
(and for xmlschema) and encoded as tokens for the model."""
import random
from xml.etree import ElementTree as ET

XS = "http://www.w3.org/2001/XMLSchema"
BUILTINS = ["xs:string", "xs:dateTime", "xs:positiveInteger", "xs:integer", "xs:boolean", "xs:unsignedInt",
            "xs:unsignedShort", "xs:unsignedByte", "xs:int", "xs:double", "xs:decimal"]

# AST
# schema  = {"root": element, "types": [(name, typedef)]}
# element = {"name", "type": builtin | named | None, "inline": typedef | None, "min": int|None, "max": int|'unbounded'|None}
# typedef = ("complex", model, attrs) | ("simple-enum", base, [values]) | ("simple-len", minLength|None, maxLength|None)
#         | ("simplecontent", base_builtin, attrs) | ("complexcontent", base_named_complex, model|None, attrs)
# model   = None | (kind in seq/choice/all, [element...])
# attr    = {"name", "use": None|'optional'|'required', "fixed": str|None, "type": builtin|named simple|None, "inline": simple typedef|None}


def gen_occurs(rng):
    m = rng.random()
    if m < 0.45:
        return None, None
    if m < 0.5:
        return 0, 0                      # prohibited particle
    mn = rng.choice([None, 0, 1, 2, 3])
    mx = rng.choice([None, 1, 2, 3, 'unbounded'])
    if isinstance(mx, int) and (mn or 1) > mx:
        mx = (mn or 1)
    if mn is None and mx is None:
        mn = 1
    return mn, mx


def gen_simple(rng):
    if rng.random() < 0.6:
        base = rng.choice(["xs:string", "xs:string", "xs:token", "xs:integer"])
        vals = rng.sample(["red", "green", "7", "42", "a b", "x"], rng.choice([1, 2, 3]))
        if base == "xs:integer":
            vals = rng.sample(["1", "7", "42"], rng.choice([1, 2]))
        return ("simple-enum", base, vals)
    mn = rng.choice([None, 0, 1, 3])
    mx = rng.choice([None, (mn or 0) + rng.choice([0, 2])])
    if mn is None and mx is None:
        mn = 2
    return ("simple-len", mn, mx)


_ATTR = [0]


def gen_attr(rng, k, simple_names):
    _ATTR[0] += 1          # attribute names are unique in the whole schema (an extension must not redeclare one of its base)
    a = {"name": "at%d" % _ATTR[0], "use": rng.choice([None, "optional", "required", "required"]), "fixed": None, "type": None, "inline": None}
    m = rng.random()
    if m < 0.2:
        a["fixed"] = rng.choice(["f1", "42", "on"])
        k2 = rng.random()
        if k2 < 0.4:
            a["type"] = "xs:string"
        elif k2 < 0.65:
            # a fixed value of a type with several lexical forms for one value (true / 1, false / 0)
            a["type"] = "xs:boolean"
            a["fixed"] = rng.choice(["true", "false", "1", "0"])
    elif m < 0.75:
        a["type"] = rng.choice(BUILTINS + simple_names)
    else:
        a["inline"] = gen_simple(rng)
    return a


def gen_element(rng, depth, k, complex_names, simple_names, in_choice=False):
    e = {"name": "e%d" % k[0], "type": None, "inline": None, "min": None, "max": None}
    k[0] += 1
    e["min"], e["max"] = gen_occurs(rng)
    m = rng.random()
    if depth <= 0 or m < 0.45:
        e["type"] = rng.choice(BUILTINS + simple_names)
    elif m < 0.6 and complex_names:
        e["type"] = rng.choice(complex_names)
    elif m < 0.7:
        e["inline"] = gen_simple(rng)
    else:
        e["inline"] = gen_complex(rng, depth - 1, k, complex_names, simple_names)
    return e


def gen_model(rng, depth, k, complex_names, simple_names):
    kind = rng.choice(["seq", "seq", "choice", "all"])
    n = rng.choice([1, 2, 2, 3])
    els = [gen_element(rng, depth, k, complex_names, simple_names, in_choice=(kind == "choice")) for _ in range(n)]
    if kind == "all":
        for e in els:                      # xs:all: occurrence 0 or 1 only
            e["min"] = rng.choice([None, 0, 1])
            e["max"] = None if e["min"] is None else 1
    return (kind, els)


NOT_EXTENSIBLE = set()      # named complex types whose content is xs:all / simple content: XSD 1.0 does not extend those with particles


def gen_complex(rng, depth, k, complex_names, simple_names):
    m = rng.random()
    attrs = [gen_attr(rng, i, simple_names) for i in range(rng.choice([0, 0, 1, 2]))]
    if m < 0.12:
        return ("simplecontent", rng.choice(BUILTINS), attrs)
    ext = [c for c in complex_names if c not in NOT_EXTENSIBLE]
    if m < 0.22 and ext:
        return ("complexcontent", rng.choice(ext), gen_model(rng, depth, k, complex_names, simple_names) if rng.random() < 0.7 else None, attrs)
    return ("complex", gen_model(rng, depth, k, complex_names, simple_names) if rng.random() < 0.9 else None, attrs)


def gen_schema(rng, recursive_ok=True):
    k = [0]
    n_c = rng.choice([0, 1, 2])
    n_s = rng.choice([0, 1])
    complex_names = ["CT%d" % i for i in range(n_c)]
    simple_names = ["ST%d" % i for i in range(n_s)]
    if rng.random() < 0.2:
        # user-defined types named like the local names of built-in types (legal: they live in no namespace, the
        # built-ins in the XSD namespace) -- a lookup that ignores the prefix would confuse them
        pool = ["boolean", "decimal", "string", "integer", "int", "double", "dateTime"]
        rng.shuffle(pool)
        complex_names = pool[:n_c]
        simple_names = pool[n_c:n_c + n_s]
    types = []
    for n in simple_names:
        types.append((n, gen_simple(rng)))
    for i, n in enumerate(complex_names):
        # named complex types may refer to the types declared before (and to themselves below optional elements)
        avail = complex_names[:i]
        t = gen_complex(rng, 1, k, avail, simple_names)
        if recursive_ok and t[0] == "complex" and t[1] is not None and rng.random() < 0.3:
            rec = {"name": "rec%d" % i, "type": n, "inline": None, "min": 0, "max": rng.choice([1, 'unbounded'])}
            t[1][1].append(rec)
        if t[0] != "complex" or t[1] is None or t[1][0] == "all":
            NOT_EXTENSIBLE.add(n)
        else:
            NOT_EXTENSIBLE.discard(n)
        types.append((n, t))
    root = gen_element(rng, 2, k, complex_names, simple_names)
    root["min"] = root["max"] = None
    root["name"] = "root"
    return {"root": root, "types": types}


# ---------------------------------------------------------------------------------------------
def _occ(e, el):
    if el["min"] is not None:
        e.set("minOccurs", str(el["min"]))
    if el["max"] is not None:
        e.set("maxOccurs", str(el["max"]))


def _simple(parent, t):
    st = ET.SubElement(parent, "xs:simpleType")
    if t[0] == "simple-enum":
        r = ET.SubElement(st, "xs:restriction", base=t[1])
        for v in t[2]:
            ET.SubElement(r, "xs:enumeration", value=v)
    else:
        r = ET.SubElement(st, "xs:restriction", base="xs:string")
        if t[1] is not None:
            ET.SubElement(r, "xs:minLength", value=str(t[1]))
        if t[2] is not None:
            ET.SubElement(r, "xs:maxLength", value=str(t[2]))
    return st


def _attrs(parent, attrs):
    for a in attrs:
        e = ET.SubElement(parent, "xs:attribute", name=a["name"])
        if a["type"]:
            e.set("type", a["type"])
        if a["use"]:
            e.set("use", a["use"])
        if a["fixed"] is not None:
            e.set("fixed", a["fixed"])
        if a["inline"]:
            _simple(e, a["inline"])


def _model(parent, model):
    if model is None:
        return
    tag = {"seq": "xs:sequence", "choice": "xs:choice", "all": "xs:all"}[model[0]]
    m = ET.SubElement(parent, tag)
    for el in model[1]:
        _element(m, el)


def _typedef(parent, t, name=None):
    if t[0].startswith("simple-"):
        st = _simple(parent, t)
        if name:
            st.set("name", name)
        return
    ct = ET.SubElement(parent, "xs:complexType")
    if name:
        ct.set("name", name)
    if t[0] == "complex":
        _model(ct, t[1])
        _attrs(ct, t[2])
    elif t[0] == "simplecontent":
        sc = ET.SubElement(ct, "xs:simpleContent")
        ex = ET.SubElement(sc, "xs:extension", base=t[1])
        _attrs(ex, t[2])
    else:
        cc = ET.SubElement(ct, "xs:complexContent")
        ex = ET.SubElement(cc, "xs:extension", base=t[1])
        _model(ex, t[2])
        _attrs(ex, t[3])


def _element(parent, el):
    e = ET.SubElement(parent, "xs:element", name=el["name"])
    if el["type"]:
        e.set("type", el["type"])
    _occ(e, el)
    if el["inline"]:
        _typedef(e, el["inline"])


def to_xsd(schema):
    root = ET.Element("xs:schema")
    root.set("xmlns:xs", XS)
    _element(root, schema["root"])
    for name, t in schema["types"]:
        _typedef(root, t, name)
    return ET.tostring(root, encoding="unicode")


def has_emptiable_choice_branch(schema):
    """some xs:choice has a branch that may be empty (minOccurs 0, or a complex type that can be empty)"""
    found = [False]

    def emptiable_el(el):
        return el["min"] == 0

    def walk_model(m):
        if m is None:
            return
        if m[0] == "choice" and any(emptiable_el(e) for e in m[1]):
            found[0] = True
        for e in m[1]:
            if e["inline"] and not e["inline"][0].startswith("simple"):
                walk_t(e["inline"])

    def walk_t(t):
        if t[0] == "complex":
            walk_model(t[1])
        elif t[0] == "complexcontent":
            walk_model(t[2])
    if schema["root"]["inline"] and not schema["root"]["inline"][0].startswith("simple"):
        walk_t(schema["root"]["inline"])
    for _, t in schema["types"]:
        if not t[0].startswith("simple"):
            walk_t(t)
    return found[0]

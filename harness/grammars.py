"""Stream Gr: random grammars (terminals, non-terminals, concatenation, alternative, character range,
bounded / unbounded repetition; left-, right- and self-recursive rules) for fences.parse_grammar."""
import random
import fences_env

fences_env.load()
from fences.grammar.types import NonTerminal, Terminal, Concatenation, Alternative, CharacterRange, Repetition  # noqa: E402
import graphs, regexes as R  # noqa: E402

# AST: ('T', str) | ('N', name:int) | ('C', [..]) | ('A', [..]) | ('R', a, b) | ('P', e, start, stop|None)


def gen_rhs(rng, names, depth, rec_ok=True):
    m = rng.random()
    if depth <= 0 or m < 0.3:
        if rec_ok and rng.random() < 0.35:
            return ('N', rng.choice(names))
        return ('T', rng.choice(["a", "b", "xy", "0", "-", "é", " ", "end"]))
    if m < 0.5:
        return ('C', [gen_rhs(rng, names, depth - 1, rec_ok) for _ in range(rng.choice([1, 2, 2, 3]))])
    if m < 0.7:
        return ('A', [gen_rhs(rng, names, depth - 1, rec_ok) for _ in range(rng.choice([1, 2, 2, 3]))])
    if m < 0.8:
        a, b = sorted([rng.choice("acm05"), rng.choice("acm05z")])
        if rng.random() < 0.3:
            b = chr(ord(a) + rng.choice([1, 1, 2]))        # two or three adjacent code points ([0-1], [a-b], [a-c])
        return ('R', ord(a), ord(b))
    start = rng.choice([0, 0, 1, 2])
    stop = rng.choice([None, start, start + 1, start + 2])
    return ('P', gen_rhs(rng, names, depth - 1, rec_ok), start, stop)


def gen_grammar(rng, productive_only=True):
    n = rng.choice([1, 2, 3, 4])
    names = list(range(1, n + 1))
    g = []
    for nm in names:
        r = gen_rhs(rng, names, rng.choice([1, 2, 3]))
        if rng.random() < 0.5:
            # make the rule safely productive: a base alternative next to the (possibly recursive) body
            base = ('T', rng.choice(["", "k", "q"]))
            r = ('A', [base, r] if rng.random() < 0.5 else [r, base])
        g.append((nm, r))
    return g, names[0]


def productive(g):
    """every non-terminal derives at least one finite string (least fixed point)"""
    rules = dict(g)
    prod = set()

    def ok(r):
        if r[0] == 'T' or r[0] == 'R':
            return True
        if r[0] == 'N':
            return r[1] in prod
        if r[0] == 'C':
            return all(ok(x) for x in r[1])
        if r[0] == 'A':
            return any(ok(x) for x in r[1])
        return r[2] == 0 or ok(r[1])
    changed = True
    while changed:
        changed = False
        for nm, r in g:
            if nm not in prod and ok(r):
                prod.add(nm)
                changed = True

    def all_ok(r):
        """every sub-term that generation must be able to complete is productive"""
        if r[0] in 'TR':
            return True
        if r[0] == 'N':
            return r[1] in prod
        if r[0] in 'CA':
            return all(all_ok(x) for x in r[1])
        return all_ok(r[1])
    return all(nm in prod for nm, _ in g) and all(all_ok(r) for _, r in g)


def names_defined(g):
    defined = {nm for nm, _ in g}
    ok = [True]

    def walk(r):
        if r[0] == 'N' and r[1] not in defined:
            ok[0] = False
        elif r[0] in 'CA':
            for x in r[1]:
                walk(x)
        elif r[0] == 'P':
            walk(r[1])
    for _, r in g:
        walk(r)
    return ok[0]


def to_fences(g):
    nts = {nm: NonTerminal("n%d" % nm) for nm, _ in g}

    def conv(r):
        if r[0] == 'T':
            return Terminal(r[1])
        if r[0] == 'N':
            return NonTerminal("n%d" % r[1])
        if r[0] == 'C':
            return Concatenation([conv(x) for x in r[1]])
        if r[0] == 'A':
            return Alternative([conv(x) for x in r[1]])
        if r[0] == 'R':
            cr = CharacterRange(chr(r[1]), chr(r[2]))
            return cr
        return Repetition(conv(r[1]), r[2], r[3])
    return {nts[nm]: conv(r) for nm, r in g}


def enc_rhs(r):
    if r[0] == 'T':
        return ["T", R.tok(r[1])]
    if r[0] == 'N':
        return ["N", R.tok("n%d" % r[1])]
    if r[0] in 'CA':
        return [r[0], str(len(r[1]))] + [t for x in r[1] for t in enc_rhs(x)]
    if r[0] == 'R':
        return ["R", str(r[1]), str(r[2])]
    return ["P", str(r[2]), str(-1 if r[3] is None else r[3])] + enc_rhs(r[1])


def enc_grammar(g, start):
    t = [str(len(g))]
    for nm, r in g:
        t += [R.tok("n%d" % nm)] + enc_rhs(r)
    return t + [R.tok("n%d" % start)]


def gram_payload(n):
    from fences.grammar import convert as C
    if isinstance(n, C.AppendString):
        return R.tok(n.string)
    if isinstance(n, C.CreateInput):
        return "I"
    if isinstance(n, C.FetchOutput):
        return "O"
    return "-"


def observe(g, start):
    from fences import parse_grammar
    try:
        root = parse_grammar(to_fences(g), "n%d" % start)
    except Exception as e:  # noqa
        return "parse=" + graphs.err_str(e), []
    dump, num = R.dump_canon(root, gram_payload)
    out = ["graph=" + dump]
    entries, status, samples, strs = [], "ok:", [], []
    try:
        for e in root.generate_paths():
            entries.append(e)
    except Exception as ex:  # noqa
        status = graphs.err_str(ex)
    out.append("entries=" + ";".join("%d/%s/%d" % (num.get(id(e.target), -1), graphs.ints(e.path), int(e.is_valid)) for e in entries) + "|status=" + status)
    for e in entries:
        try:
            s = root.execute(e.path)
            strs.append(s)
            samples.append("ok:" + R.tok(s))
        except Exception as ex:  # noqa
            strs.append(None)
            samples.append(graphs.err_str(ex))
    out.append("samples=" + ";".join(samples))
    return "|".join(out), list(zip(entries, strs))


def second_run_differs(g, start):
    """enumerate the paths of one graph object twice: labels, paths and strings of the second run must be those of the first"""
    from fences import parse_grammar
    try:
        root = parse_grammar(to_fences(g), "n%d" % start)
    except Exception:  # noqa
        return None
    runs = []
    for _ in range(2):
        try:
            ent = [(list(e.path), bool(e.is_valid)) for e in root.generate_paths()]
            runs.append([(p, v, root.execute(p)) for p, v in ent])
        except Exception as ex:  # noqa
            runs.append("raises " + graphs.err_str(ex))
    if runs[0] != runs[1] and not isinstance(runs[0], str):
        if isinstance(runs[1], str):
            return "the second generate_paths() on the same graph %s (the first gave %d samples)" % (runs[1], len(runs[0]))
        bad = [(a, b) for a, b in zip(runs[0], runs[1]) if a != b][:1]
        return "the second generate_paths() on the same graph gives %d samples (first run: %d); first difference: %r" % (len(runs[1]), len(runs[0]), bad)
    return None


def derivable(g, start, s):
    """does the start symbol derive s?  chart-based least fixed point over (sub-term, i, j)"""
    rules = dict(g)
    n = len(s)
    terms = []

    def collect(r):
        terms.append(r)
        if r[0] in 'CA':
            for x in r[1]:
                collect(x)
        elif r[0] == 'P':
            collect(r[1])
    for _, r in g:
        collect(r)
    top = ('N', start)
    terms.append(top)
    ids = {id(t): k for k, t in enumerate(terms)}
    T = [[[False] * (n + 1) for _ in range(n + 1)] for _ in terms]

    def get(r, i, j):
        return T[ids[id(r)]][i][j]

    def seq(parts, i, j):
        # can parts[0..] derive s[i:j] in order?
        reach = {i}
        for p in parts:
            nxt = set()
            for a in reach:
                for b in range(a, j + 1):
                    if get(p, a, b):
                        nxt.add(b)
            reach = nxt
            if not reach:
                return False
        return j in reach

    def rep(r, i, j):
        e, lo, hi = r[1], r[2], r[3]
        # counts of copies of e covering s[i:j]; empty copies allowed -> bounded exploration
        maxc = (hi if hi is not None else lo + (j - i) + 1)
        reach = {(i, 0)}
        seen = set(reach)
        okc = False
        frontier = list(reach)
        while frontier:
            a, c = frontier.pop()
            if a == j and c >= lo and (hi is None or c <= hi):
                okc = True
                break
            if c >= maxc:
                continue
            for b in range(a, j + 1):
                if get(e, a, b) and (b, c + 1) not in seen:
                    seen.add((b, c + 1))
                    frontier.append((b, c + 1))
        return okc
    changed = True
    while changed:
        changed = False
        for t in terms:
            k = ids[id(t)]
            for i in range(n + 1):
                for j in range(i, n + 1):
                    if T[k][i][j]:
                        continue
                    if t[0] == 'T':
                        v = s[i:j] == t[1]
                    elif t[0] == 'R':
                        v = j == i + 1 and t[1] <= ord(s[i]) <= t[2]
                    elif t[0] == 'N':
                        v = t[1] in rules and get(rules[t[1]], i, j)
                    elif t[0] == 'C':
                        v = seq(t[1], i, j)
                    elif t[0] == 'A':
                        v = any(get(x, i, j) for x in t[1])
                    else:
                        v = rep(t, i, j)
                    if v:
                        T[k][i][j] = True
                        changed = True
    return T[ids[id(top)]][0][n]


def occurrences(g, start):
    """terminal occurrences and range ends (by position in the AST) reachable from the start symbol,
    not below a repetition whose upper bound is 0, and carrying a non-empty text"""
    rules = dict(g)
    seen, acc = set(), []

    def walk(r):
        if r[0] == 'T':
            if r[1] != "":
                acc.append((id(r), None, r[1]))
        elif r[0] == 'R':
            acc.append((id(r), 'lo', chr(r[1])))
            acc.append((id(r), 'hi', chr(r[2])))
        elif r[0] == 'N':
            if r[1] not in seen and r[1] in rules:
                seen.add(r[1])
                walk(rules[r[1]])
        elif r[0] in 'CA':
            for x in r[1]:
                walk(x)
        elif not (r[3] == 0):
            walk(r[1])
    walk(('N', start))
    return acc


def derivable_using(g, start, s, occ):
    """is there a derivation of s from the start symbol that uses the terminal occurrence occ = (node id, end)?
    Two charts by least fixed point: D = derivable, U = derivable with a derivation using occ."""
    rules = dict(g)
    n = len(s)
    terms = []

    def collect(r):
        terms.append(r)
        if r[0] in 'CA':
            for x in r[1]:
                collect(x)
        elif r[0] == 'P':
            collect(r[1])
    for _, r in g:
        collect(r)
    top = ('N', start)
    terms.append(top)
    ids = {id(t): k for k, t in enumerate(terms)}
    D = [[[False] * (n + 1) for _ in range(n + 1)] for _ in terms]
    U = [[[False] * (n + 1) for _ in range(n + 1)] for _ in terms]

    def get(T, r, i, j):
        return T[ids[id(r)]][i][j]

    def seq_states(parts, i, j, counted):
        """reachable (position, used-flag) after deriving parts in order from i; returns (can reach j, can reach j with used)"""
        reach = {(i, False)}
        for p in parts:
            nxt = set()
            for a, u in reach:
                for b in range(a, j + 1):
                    if get(D, p, a, b):
                        nxt.add((b, u))
                    if get(U, p, a, b):
                        nxt.add((b, True))
            reach = nxt
            if not reach:
                return False, False
        return ((j, False) in reach or (j, True) in reach), (j, True) in reach

    def rep_states(r, i, j):
        e, lo, hi = r[1], r[2], r[3]
        maxc = hi if hi is not None else lo + (j - i) + 1
        seen = {(i, 0, False)}
        frontier = [(i, 0, False)]
        ok_d = ok_u = False
        while frontier:
            a, c, u = frontier.pop()
            if a == j and c >= lo and (hi is None or c <= hi):
                ok_d = True
                ok_u = ok_u or u
            if c >= maxc:
                continue
            for b in range(a, j + 1):
                for flag, T in ((False, D), (True, U)):
                    if get(T, e, a, b):
                        st = (b, c + 1, u or flag)
                        if st not in seen:
                            seen.add(st)
                            frontier.append(st)
        return ok_d, ok_u
    changed = True
    while changed:
        changed = False
        for t in terms:
            k = ids[id(t)]
            for i in range(n + 1):
                for j in range(i, n + 1):
                    if D[k][i][j] and U[k][i][j]:
                        continue
                    if t[0] == 'T':
                        d = s[i:j] == t[1]
                        u = d and occ[0] == id(t)
                    elif t[0] == 'R':
                        d = j == i + 1 and t[1] <= ord(s[i]) <= t[2]
                        u = d and occ[0] == id(t) and ord(s[i]) == (t[1] if occ[1] == 'lo' else t[2])
                    elif t[0] == 'N':
                        d = t[1] in rules and get(D, rules[t[1]], i, j)
                        u = t[1] in rules and get(U, rules[t[1]], i, j)
                    elif t[0] == 'C':
                        d, u = seq_states(t[1], i, j, None)
                    elif t[0] == 'A':
                        d = any(get(D, x, i, j) for x in t[1])
                        u = any(get(U, x, i, j) for x in t[1])
                    else:
                        d, u = rep_states(t, i, j)
                    if d and not D[k][i][j]:
                        D[k][i][j] = True
                        changed = True
                    if u and not U[k][i][j]:
                        U[k][i][j] = True
                        changed = True
    return U[ids[id(top)]][0][n]


def reachable_terminals(g, start):
    """terminal occurrences and range ends reachable from the start symbol (and not under a {0} repetition)"""
    rules = dict(g)
    seen, acc = set(), []

    def walk(r):
        if r[0] == 'T':
            acc.append(r[1])
        elif r[0] == 'R':
            acc.extend([chr(r[1]), chr(r[2])])
        elif r[0] == 'N':
            if r[1] not in seen and r[1] in rules:
                seen.add(r[1])
                walk(rules[r[1]])
        elif r[0] in 'CA':
            for x in r[1]:
                walk(x)
        elif not (r[2] == 0 and r[3] == 0):
            walk(r[1])
    walk(('N', start))
    return acc

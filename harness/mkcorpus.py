"""Collect the inputs on which the seeded changes were caught into /verif/corpus/json/<property>/<seed>.json
(schema, and the instance for C06): the JSON checks run these documents before their random ones, so that a catch does
not depend on where a particular shape falls in the random stream.  Run after harness/reseed.py."""
import os, json, sys

VERIF = os.path.dirname(os.path.dirname(os.path.abspath(__file__)))
FAMILY = ("C01", "C02", "C06", "C12", "C16")


def main():
    n = 0
    for name in sorted(os.listdir(os.path.join(VERIF, "seeded"))):
        pid = name.split("-")[0]
        if pid not in FAMILY:
            continue
        meta = json.load(open(os.path.join(VERIF, "seeded", name, "meta.json")))
        if not meta.get("kept", True):
            continue
        lines = list((meta.get("latest") or {}).get("report", []))
        for v in ((meta.get("ran") or {}).get("checks") or {}).values():
            lines += v.get("report", [])
        for l in lines:
            if not l.startswith("VIOLATION") or "no-failing-input-found" in l:
                continue
            rp = l.split("replay=")[1].split()[0]
            if not os.path.exists(rp):
                continue
            d = json.load(open(rp))
            if "schema" not in d:
                continue
            out = {"schema": d["schema"], "from": name, "signature": d.get("signature")}
            for k in ("instance", "full_merge", "detect_duplicates"):
                if k in d:
                    out[k] = d[k]
            os.makedirs(os.path.join(VERIF, "corpus", "json", pid), exist_ok=True)
            json.dump(out, open(os.path.join(VERIF, "corpus", "json", pid, name + ".json"), "w"), indent=1)
            n += 1
            break
    print("corpus entries written:", n)


sys.exit(main())

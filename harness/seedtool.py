"""Confirm a seeded change and record which checks catch it.

usage: seedtool.py <seeds-dir> <name-prefix> <check-id> [<check-id> ...]
  <seeds-dir>/m*/{patch.diff,demo.py,meta.json}  (written by a sub-agent in its own worktree)
For each mutation: (1) in a scratch worktree of /repo (with the generated grammar.py) confirm that
the demo passes on the clean tree, fails with the patch, and the test suite result is unchanged;
(2) apply the patch to /repo, run the given checks, undo; (3) store everything under
/verif/seeded/<name-prefix>-m<i>/."""
import sys, os, json, subprocess, shutil, re

VERIF = os.path.dirname(os.path.dirname(os.path.abspath(__file__)))
WT = "/tmp/wt-verify"
PY = "/venv/bin/python"


def sh(cmd, cwd=None, env=None, timeout=3000):
    e = dict(os.environ)
    if env:
        e.update(env)
    p = subprocess.run(cmd, shell=True, cwd=cwd, env=e, capture_output=True, text=True, timeout=timeout)
    return p.returncode, (p.stdout + p.stderr)


def tests(cwd):
    rc, out = sh(PY + " -m pytest -q -p no:cacheprovider --timeout=900 --continue-on-collection-errors 2>&1 | tail -1", cwd=cwd)
    return re.sub(r" in [0-9.]+s.*", "", out.strip())


def main():
    seeds, prefix, checks = sys.argv[1], sys.argv[2], sys.argv[3:]
    sh("git -C /repo worktree remove --force %s" % WT)
    rc, out = sh("git -C /repo worktree add -f %s HEAD" % WT)
    sh(PY + " -m lark.tools.standalone bin/regex.lark > fences/regex/grammar.py", cwd=WT)
    base_tests = tests(WT)
    base_repo_tests = tests("/repo")
    for m in sorted(os.listdir(seeds)):
        d = os.path.join(seeds, m)
        if not os.path.exists(os.path.join(d, "patch.diff")):
            continue
        name = "%s-%s" % (prefix, m)
        env = {"PYTHONPATH": WT, "PYTHONDONTWRITEBYTECODE": "1"}
        demo = open(os.path.join(d, "demo.py")).read()
        wtname = re.search(r"/tmp/wt-[A-Za-z0-9_]+", demo)
        if wtname:
            demo = demo.replace(wtname.group(0), WT)
        os.makedirs(os.path.join(WT, "_seeds", m), exist_ok=True)
        open(os.path.join(WT, "_seeds", m, "demo.py"), "w").write(demo)
        rc_clean, _ = sh("%s _seeds/%s/demo.py" % (PY, m), cwd=WT, env=env)
        rc_apply, out_apply = sh("git apply %s || git apply --3way %s" % (os.path.join(d, "patch.diff"), os.path.join(d, "patch.diff")), cwd=WT)
        sh("git diff HEAD -- fences > /tmp/_rebased.diff", cwd=WT)
        rc_mut, out_mut = sh("%s _seeds/%s/demo.py" % (PY, m), cwd=WT, env=env)
        mut_tests = tests(WT)
        shutil.copy("/tmp/_rebased.diff", "/tmp/_rebased_%s.diff" % m)
        sh("git reset -q --hard HEAD", cwd=WT)
        ok = rc_clean == 0 and rc_apply == 0 and rc_mut != 0 and mut_tests == base_tests
        result = {"demo_clean_exit": rc_clean, "demo_mutated_exit": rc_mut, "patch_applies": rc_apply == 0,
                  "tests_clean": base_tests, "tests_mutated": mut_tests, "confirmed": ok,
                  "demo_output": out_mut[-600:]}
        caught = {}
        if ok:
            rc, out = sh("git -C /repo apply /tmp/_rebased_%s.diff" % m)
            try:
                result["repo_tests_mutated"] = tests("/repo")
                result["repo_tests_clean"] = base_repo_tests
                for c in checks:
                    rcc, outc = sh("./check %s --tier quick" % c, cwd=VERIF)
                    lines = [l for l in outc.split("\n") if l.startswith("VIOLATION") or l.startswith("  detail")]
                    caught[c] = {"exit": rcc, "report": lines[:3]}
            finally:
                sh("git -C /repo reset -q --hard HEAD")
        result["checks"] = caught
        out_dir = os.path.join(VERIF, "seeded", name)
        os.makedirs(out_dir, exist_ok=True)
        shutil.copy("/tmp/_rebased_%s.diff" % m, os.path.join(out_dir, "patch.diff"))
        open(os.path.join(out_dir, "demo.py"), "w").write(demo)
        meta = {}
        try:
            meta = json.load(open(os.path.join(d, "meta.json")))
        except Exception:  # noqa
            pass
        meta["ran"] = result
        meta["kept"] = ok
        json.dump(meta, open(os.path.join(out_dir, "meta.json"), "w"), indent=1)
        print(name, "confirmed" if ok else "NOT-CONFIRMED", {c: v["exit"] for c, v in caught.items()},
              [v["report"][0][:120] if v["report"] else "" for v in caught.values()])
    sh("git -C /repo worktree remove --force %s" % WT)
    # restore evidence files of the clean tree
    for c in checks:
        sh("./check %s --tier quick" % c, cwd=VERIF)


main()
